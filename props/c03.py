"""C03 -- an algorithm's rating depends only on the algorithm, in every view."""
import ast

from sa.core import AnalysisError, unparse, walk_no_nested, stmt_text, call_name, bind_args, attr_chain, func_id
from sa.logic import path_condition
from sa.slicer import Slice, uses
from sa.alias import Derived
from sa.consteval import ConstEnv

EXPL = ('Decides from the AST: (1) locality -- the backward slice (data+control) of the note list in the text renderer and of the notes dict in the JSON renderer reaches only '
        '(table, category, name); position, neighbours, role, output state and the running status cannot influence it; (2) every site that matches an advertised name against table keys '
        'applies the same normalisation as the text renderer whenever the category has wildcard keys (taken from the table itself); (3) the not-in-table branch of each renderer yields a warn/fail '
        '"unknown" note and nothing else; (4) --lookup reads SSH2_KexDB.get_db() and renders through output_algorithms; (5) the set of functions that mutate an object derived from the rating table '
        '(alias/provenance tracking over the whole package) equals the confirmed set of documented measured-attribute writers; (6) rows 1/2/3 map to fail/warn/info in both views. '
        'Not decided: textual identity of --lookup output with the report line.')

DB_SOURCES = ('SSH2_KexDB.get_db()', 'SSH1_KexDB.get_db()', 'SSH2_KexDB.MASTER_DB', 'SSH1_KexDB.MASTER_DB')
DB_PARAM_NAMES = ('alg_db', 'db', 'adb')
# functions allowed to edit the per-thread rating table, with the documented measured attribute
ALLOWED_WRITERS = {
    'ssh_audit:post_process_findings': 'OpenSSH GEX-2048 fallback note (measured modulus size)',
    'ssh_audit:post_process_findings._add_terrapin_warning': 'Terrapin context',
    'hostkeytest:HostKeyTest.perform_test': 'measured host-key / CA key size',
    'gextest:GEXTest.run': 'measured group-exchange modulus size',
}
TABLE_MANAGERS = ('ssh2_kexdb:SSH2_KexDB.get_db', 'ssh2_kexdb:SSH2_KexDB.thread_exit', 'ssh1_kexdb:SSH1_KexDB.get_db', 'ssh1_kexdb:SSH1_KexDB.thread_exit')


def wildcard_categories(db2):
    out = {}
    for cat, entries in db2.items():
        w = {k for k in entries if k.endswith('-*')}
        if w:
            out[cat] = w
    return out


def is_db_source(e):
    t = unparse(e) if isinstance(e, (ast.Call, ast.Attribute)) else None
    if t in DB_SOURCES:
        return True
    if isinstance(e, ast.Attribute) and e.attr == 'db' and isinstance(e.value, ast.Name) and e.value.id == 'alg_pair':
        return True
    if isinstance(e, ast.Subscript) and unparse(e.value) in ('SSH2_KexDB.DB_PER_THREAD', 'SSH1_KexDB.DB_PER_THREAD'):
        return True
    return False


def db_params(func):
    out = set()
    for a in func.args.posonlyargs + func.args.args + func.args.kwonlyargs:
        ann = unparse(a.annotation) if a.annotation is not None else ''
        if a.arg in DB_PARAM_NAMES or 'Dict[str, Dict[str, List[List[Optional[str]]]]]' in ann:
            out.add(a.arg)
    return out


def _normalises(func, operand):
    """Does the operand of a name-matching site pass through the gss wildcard normalisation?"""
    sl = Slice(func)
    names = uses(operand)
    R = sl.closure(names)
    for tgt, u, ctl, node in sl.events:
        if tgt in R or tgt in names:
            for t, p, k in path_condition(node):
                if "startswith('gss-')" in unparse(t) and p:
                    return True
            if isinstance(node, ast.Assign) and isinstance(node.value, ast.Call):
                cn = call_name(node.value)
                if cn:
                    # shared helper: a package function whose body performs the normalisation
                    for (m, q), f in func._module.__dict__.get('_repo_funcs', {}).items():
                        pass
    return False


def name_match_sites(repo):
    """Every site that matches an advertised name against rating-table keys."""
    sites = []
    helper_norm = set()
    for (m, q), f in repo.all_funcs().items():
        src = unparse(f)
        if "startswith('gss-')" in src and 'rindex' in src and q not in ('output_algorithm',):
            helper_norm.add(f.name)
    for (m, q), f in repo.all_funcs().items():
        if m not in ('ssh_audit', 'algorithms'):
            continue
        dbnames = db_params(f)
        d = Derived(f, is_db_source, extra_seeds=dbnames)
        for n in walk_no_nested(f):
            operand = None
            if isinstance(n, ast.Compare) and len(n.ops) == 1 and isinstance(n.ops[0], (ast.In, ast.NotIn)):
                left, right = n.left, n.comparators[0]
                if d.derived(right) and isinstance(right, ast.Subscript) and not isinstance(left, ast.Constant):
                    operand = left
                elif isinstance(left, ast.Name) and d.derived(left) and isinstance(right, ast.Name) and not d.derived(right):
                    operand = left      # table key tested against the advertised list (reversed direction)
            elif isinstance(n, ast.Call) and isinstance(n.func, ast.Attribute) and n.func.attr == 'get' and d.derived(n.func.value) and isinstance(n.func.value, ast.Subscript) and n.args:
                operand = n.args[0]
            if operand is None:
                continue
            if q == 'algorithm_lookup':
                continue
            norm = False
            sl = Slice(f)
            R = sl.closure(uses(operand))
            for tgt, u, ctl, node in sl.events:
                if tgt in R:
                    if any("startswith('gss-')" in unparse(t) and p for t, p, k in path_condition(node)):
                        norm = True
                    if isinstance(node, ast.Assign) and isinstance(node.value, ast.Call) and (call_name(node.value) or '').split('.')[-1] in helper_norm:
                        norm = True
            if isinstance(n, ast.Compare) and operand is n.left and isinstance(n.comparators[0], ast.Name) and not norm:
                # reversed site: normalisation may be applied to the advertised list instead
                for node in walk_no_nested(f):
                    if isinstance(node, ast.Assign) and unparse(node.targets[0]) == unparse(n.comparators[0]) and any((call_name(c) or '').split('.')[-1] in helper_norm for c in ast.walk(node.value) if isinstance(c, ast.Call)):
                        norm = True
                for tgt, u, ctl, node in sl.events:
                    if tgt == unparse(n.comparators[0]) and isinstance(node, (ast.For,)):
                        it = node.iter
                        if any((call_name(c) or '').split('.')[-1] in helper_norm for c in ast.walk(it) if isinstance(c, ast.Call)):
                            norm = True
            # the table category the site ranges over, when it is a literal (for key in db['enc']: ...): wildcard rows of other categories are not involved
            cat = None
            if isinstance(operand, ast.Name):
                for lp in walk_no_nested(f):
                    if isinstance(lp, ast.For) and isinstance(lp.target, ast.Name) and lp.target.id == operand.id and isinstance(lp.iter, ast.Subscript) and isinstance(lp.iter.slice, ast.Constant):
                        cat = lp.iter.slice.value
            if isinstance(n, ast.Compare) and isinstance(n.comparators[0], ast.Subscript) and isinstance(n.comparators[0].slice, ast.Constant) and isinstance(n.comparators[0].slice.value, str):
                cat = n.comparators[0].slice.value
            sites.append({'func': '%s:%s' % (m, q), 'node': n, 'text': unparse(n), 'normalises': norm, 'category': cat})
    return sites


def run(repo, rep, tier):
    rep.explanation = EXPL
    ce = ConstEnv(repo)
    db2 = ce.lookup('ssh2_kexdb', 'SSH2_KexDB.MASTER_DB')
    oa = repo.func('ssh_audit', 'output_algorithm')
    bs = repo.func('ssh_audit', 'build_struct')
    fn = repo.func('ssh_audit', 'build_struct.fetch_notes')
    rep.saw(oa), rep.saw(fn)

    # ---- rule 1: locality ---------------------------------------------------------------------------------------
    # text renderer, by interpretation (props/_renderer.py): the notes printed for a name, their levels and the unknown-name list are those the
    # table row of (category, name) implies, for every presentation flag, padding width, size annotation and incoming status
    from props import _renderer
    _renderer.verify(repo, rep, ['levels', 'unknown'], {'levels': 'levels', 'unknown': 'unknown'})
    # ... and, beyond the scenario family, the note list is data- and control-dependent on the table, the category and the name only (backward slice)
    sl = Slice(oa)
    if sl.last_def_line('texts') is not None:
        R = sl.closure({'texts'}, before=sl.last_def_line('texts'))
        params = {a.arg for a in oa.args.args}
        got = R & params
        # the slice over-approximates dependence.  A reported dependence on the size maps is refuted when the interpretation model above -- whose family varies
        # exactly these two arguments (no sizes / a modulus size / host-key and CA sizes) for every name -- found the notes and levels unchanged
        model_clean = not any(f_.rule in ('levels', 'unknown') for f_ in rep.findings)
        if model_clean and (got - {'alg_db', 'alg_type', 'alg_name'}) <= {'dh_modulus_sizes', 'host_keys'} and (got - {'alg_db', 'alg_type', 'alg_name'}):
            rep.note('locality: the backward slice of the note list reaches %s (a syntactic over-approximation); the renderer model varies these arguments and finds the notes unchanged' % sorted(got - {'alg_db', 'alg_type', 'alg_name'}))
            got = got & {'alg_db', 'alg_type', 'alg_name'}
        rep.check('locality', 'text renderer: notes depend only on (table, category, name)', got <= {'alg_db', 'alg_type', 'alg_name'}, oa,
                  'the notes of an algorithm depend on %s' % sorted(got - {'alg_db', 'alg_type', 'alg_name'}), sample={'rule': 'locality', 'function': 'output_algorithm', 'slice_params': sorted(got), 'slice': sorted(R)})
        badattr = sorted(r for r in R if r.startswith('out.') or r in ('out',))       # (class constants such as HostKeyTest.RSA_FAMILY are not state)
        if model_clean and badattr and set(badattr) <= {'out', 'out.batch', 'out.verbose', 'out.level', 'out.get_level'}:
            rep.note('locality: the backward slice of the note list reaches %s (over-approximation); the renderer model varies batch / verbose / minimum level and finds the notes unchanged' % badattr)
            badattr = []
        rep.check('locality', 'text renderer: notes do not read output state', not badattr, oa, 'notes depend on %s' % badattr)
    oas = repo.func('ssh_audit', 'output_algorithms')
    for n in walk_no_nested(oas):
        if isinstance(n, ast.Call) and call_name(n) == 'output_algorithm':
            b = bind_args(n, oa)
            rep.check('locality', 'output_algorithms passes the list element itself as the name', unparse(b.get('alg_name')) == 'algorithm' and unparse(b.get('alg_db')) == 'alg_db' and unparse(b.get('alg_type')) == 'alg_type', n,
                      'output_algorithm called with name=%s table=%s category=%s' % (unparse(b.get('alg_name')), unparse(b.get('alg_db')), unparse(b.get('alg_type'))))
            lp = [t for t, p, k in path_condition(n) if k == 'for']
            rep.check('locality', 'no positional information is passed (plain iteration of the list parameter)', [unparse(x) for x in lp] == ['algorithms'], n, 'iteration is %s' % [unparse(x) for x in lp])
    sl2 = Slice(fn)
    R2 = sl2.closure({'alg_info'})
    p2 = {a.arg for a in fn.args.args}
    import builtins
    free = {r for r in R2 if r.split('.')[0] not in p2 and r.split('.')[0] not in {e[0] for e in sl2.events} and not hasattr(builtins, r)}
    okfree = {'SSH2_KexDB.get_db', 'SSH2_KexDB.FAIL_UNKNOWN', 'Algorithm.get_since_text'}
    rep.check('locality', 'JSON renderer: notes depend only on (table, category, name)', free <= okfree and (R2 & p2) <= {'algorithm', 'alg_type'}, fn,
              'fetch_notes depends on %s' % sorted((free - okfree) | ((R2 & p2) - {'algorithm', 'alg_type'})), sample={'rule': 'locality', 'function': 'fetch_notes', 'free': sorted(free)})
    # the JSON view asks for the notes of the list element itself and the category of the list it came from (build_struct interpreted, props/_sections.py)
    from props import _sections
    res, lists = _sections.run_build_struct(repo, 2)
    ncall = 0
    for cat, src in (('kex', 'kex.kex_algorithms'), ('key', 'kex.key_algorithms'), ('enc', 'kex.server.encryption'), ('mac', 'kex.server.mac')):
        ents = res.get(cat) if isinstance(res.get(cat), list) else []
        for e in ents:
            ncall += 1
            ok = isinstance(e, dict) and e.get('notes') == ('notes', e.get('algorithm'), cat)
            rep.check('locality', 'JSON %s: the notes of an entry are looked up for (that name, %r)' % (cat, cat), ok, bs, 'fetch_notes for the %s entry %r is called with %r' % (cat, e.get('algorithm') if isinstance(e, dict) else e, e.get('notes') if isinstance(e, dict) else None),
                      stmt='json notes lookup %s' % cat)
    rep.floor('locality', 'fetch_notes call sites', ncall, 4)

    # the row consulted is alg_db[<category parameter>][...] in both renderers
    for f, cat in ((oa, 'alg_type'), (fn, 'alg_type')):
        nsub = 0
        for n in walk_no_nested(f):
            if isinstance(n, ast.Subscript) and isinstance(n.value, ast.Name) and n.value.id == 'alg_db':
                nsub += 1
                rep.check('locality', '%s: table is indexed by the category parameter: %s' % (f.name, unparse(n)), unparse(n.slice) == cat, n, 'rating table indexed by %s instead of the category being rendered' % unparse(n.slice))
        rep.floor('locality', 'table subscripts in %s' % f.name, nsub, 1)
    # ---- rule 2: key normalisation agreement -----------------------------------------------------------------------
    wc = wildcard_categories(db2)
    rep.samples.append({'rule': 'name-match', 'wildcard_categories': {k: len(v) for k, v in wc.items()}})
    sites = name_match_sites(repo)
    rep.floor('name-match', 'name matching sites', len(sites), 4)
    # (that both renderers rate a gss-* instance from its wildcard row is decided by the interpretation models above: 'gss-gex-sha1-AbC+d==' is in the scenario family)
    for s in sites:
        rep.saw(s['node'])
        if s['func'] in ('ssh_audit:output_algorithm', 'ssh_audit:build_struct.fetch_notes'):
            continue
        if s['func'].startswith('ssh_audit:post_process_findings') and s.get('category') is None:
            continue            # Terrapin classification: ranges over cipher / MAC names (no wildcard rows); its behaviour is decided by C04's decision table
        if s['func'] == 'algorithms:Algorithms.get_recommendations':
            continue            # reported under C13 (rule name-match there)
        if s['func'] == 'algorithms:Algorithms.get_ssh_timeframe':
            # harmless iff every wildcard row has an empty version row (nothing to add to the timeframe)
            harmless = all(len(db2[c][k][0]) == 0 for c, ks in wc.items() for k in ks)
            rep.check('name-match', 'timeframe lookup of wildcard names is moot (wildcard rows carry no versions) or normalised', s['normalises'] or harmless, s['node'],
                      'get_ssh_timeframe matches raw names against wildcard rows that carry version data', stmt=s['text'])
            continue
        for cat in sorted(wc):
            if s.get('category') is not None and s['category'] != cat:
                continue        # the site only ever sees names of another, wildcard-free category
            rep.check('name-match', '%s: `%s` agrees with the text renderer on wildcard category %s' % (s['func'], s['text'][:50], cat), s['normalises'], s['node'],
                      '`%s` matches the raw advertised name against the wildcard keys of category %r (e.g. %s): this view rates every gss-* key exchange as unknown while the text report rates it from the wildcard row'
                      % (s['text'], cat, sorted(wc[cat])[0]), stmt=s['text'])
    # a new site anywhere else
    known_funcs = {'ssh_audit:output_algorithm', 'ssh_audit:build_struct.fetch_notes', 'algorithms:Algorithms.get_recommendations', 'algorithms:Algorithms.get_ssh_timeframe'}
    for s in sites:
        if s['func'] not in known_funcs and not s['func'].startswith('ssh_audit:post_process_findings'):
            for cat in sorted(wc):
                rep.check('name-match', 'new name-matching site %s normalises' % s['func'], s['normalises'], s['node'], 'new name-matching site `%s` does not normalise wildcard names' % s['text'], stmt=s['text'])

    # ---- rule 3: unknown branch / rule 6: level ordering, JSON view (interpretation model) ---------------------------------------------
    _renderer.verify_json(repo, rep, 'levels', 'unknown', 'levels')
    fu = ce.lookup('ssh2_kexdb', 'SSH2_KexDB.FAIL_UNKNOWN')
    rep.check('unknown', 'FAIL_UNKNOWN says unknown', isinstance(fu, str) and 'unknown' in fu, repo.cls('ssh2_kexdb', 'SSH2_KexDB'), 'FAIL_UNKNOWN text is %r' % fu)
    # ---- rule 4: --lookup prints what the report prints (by interpretation) ------------------------------------------------------------------
    # algorithm_lookup is interpreted on the synthetic table of the renderer model for a request that names a known algorithm, an instance of a wildcard row
    # (gss-gex-sha1-<hash>) and a name nobody knows: the known name and the wildcard row reach output_algorithms under their category with the per-thread table;
    # only the unknown name is listed as unknown
    al = repo.func('ssh_audit', 'algorithm_lookup')
    rep.saw(al)
    from sa.listinterp import Interp as _I3
    from sa.abseval import Unknown as _U3, Opaque as _O3
    table3 = {k: {n: [list(r) for r in rows] for n, rows in v.items()} for k, v in _renderer.DB.items()}
    shown, lines3 = [], []

    def hook3(call, e, interp):
        t = call_name(call) or unparse(call.func)
        if t in ('SSH2_KexDB.get_db',) and not call.args:
            return (True, table3)
        if t == 'output_algorithms':
            b = interp.bind_values(call, oas, e)
            shown.append((b.get('alg_type'), sorted(b.get('algorithms')) if isinstance(b.get('algorithms'), (list, set, tuple)) else b.get('algorithms'), b.get('alg_db') is table3))
            return (True, b.get('program_retval'))
        if isinstance(call.func, ast.Attribute) and unparse(call.func.value) == 'out' and call.func.attr in ('fail', 'warn', 'info', 'good', 'head'):
            try:
                lines3.append((call.func.attr, interp.value(call.args[0], e)))
            except _U3:
                lines3.append((call.func.attr, _O3()))
            return (True, None)
        return None
    from props._renderer import codes as _codes3
    env3 = dict(_codes3(repo))
    env3.update({'out': _O3(), 'alg_names': 'k-warn,gss-gex-sha1-AbC+d==,no-such-name', 'SSH2_KexDB.MASTER_DB': {k_: dict(v_) for k_, v_ in table3.items()}})
    try:
        from sa.core import repo_resolver as _rr3
        fin3 = _I3(call_hook=hook3, budget=60000, resolver=_rr3(repo, exclude=('algorithm_lookup', 'output_algorithms'))).run(al.body, env3)
    except _U3 as ex:
        raise AnalysisError('algorithm_lookup cannot be interpreted: %s' % ex)
    if len(fin3) != 1 or fin3[0].get('<forks>'):
        raise AnalysisError('algorithm_lookup does not evaluate on a single path (forks %s)' % [f_.get('<forks>') for f_ in fin3][:1])
    kex_shown = [x for x in shown if x[0] == 'kex']
    names_shown = kex_shown[0][1] if kex_shown else []
    rep.check('lookup', '--lookup renders through output_algorithms with the per-thread table and the category key', len(kex_shown) == 1 and kex_shown[0][2] and all(x[2] for x in shown), al,
              'algorithm_lookup renders %s' % [(a, n) for a, n, t in shown], stmt='lookup rendering')
    rep.check('lookup', '--lookup finds a known name', isinstance(names_shown, list) and 'k-warn' in names_shown, al, '--lookup k-warn shows %s' % (names_shown,), stmt='lookup known name')
    unknown_listed = [t for lv, t in lines3 if isinstance(t, str) and 'gss-gex-sha1' in t and lv == 'fail']
    rep.check('lookup', 'an instance of a wildcard row (gss-gex-sha1-<hash>) is looked up under that row, as the scan report rates it', isinstance(names_shown, list) and any(isinstance(n, str) and n.startswith('gss-gex-sha1-') for n in names_shown) and not unknown_listed, al,
              '--lookup gss-gex-sha1-<hash> lists the name as unknown (shown under kex: %s) although the report of a scan rates it from the row gss-gex-sha1-*: what --lookup prints for a name does not match the report' % (names_shown,), stmt='lookup of a wildcard instance')
    rep.check('lookup', 'a name no table knows is listed as unknown', any(isinstance(t, str) and 'no-such-name' in t for lv, t in lines3), al, '--lookup does not report no-such-name as unknown: %s' % lines3[:4], stmt='lookup unknown name')
    for other in ('MASTER_DB',):
        rep.check('lookup', '--lookup does not read MASTER_DB directly', other not in unparse(al), al, 'algorithm_lookup reads %s' % other)

    # ---- rule 5: writers of the rating table ----------------------------------------------------------------------------------
    writers = {}
    nfuncs = 0
    for (m, q), f in repo.all_funcs().items():
        nfuncs += 1
        d = Derived(f, is_db_source, extra_seeds=db_params(f))
        for node, desc in d.mutations():
            writers.setdefault('%s:%s' % (m, q), []).append((node, desc))
    rep.extra['rating_table_writers'] = {k: [d for n, d in v] for k, v in writers.items()}
    for fid, muts in sorted(writers.items()):
        if fid in TABLE_MANAGERS:
            continue
        for node, desc in muts:
            ok = fid in ALLOWED_WRITERS
            rep.check('writers', '%s: %s is a documented measured-attribute writer' % (fid, desc[:60]), ok, node,
                      '%s mutates the rating table (%s); only %s may, so ratings would depend on what was rendered/scanned before' % (fid, desc, sorted(ALLOWED_WRITERS)))
    for fid in ALLOWED_WRITERS:
        rep.check('writers', 'documented writer %s still writes (inventory is current)' % fid, fid in writers, repo.func(*fid.split(':')), 'documented writer %s no longer writes the table: update the inventory' % fid)
    rep.floor('writers', 'functions scanned for table writes', nfuncs, 200)

    # ---- rule 5b: the table ratings are read from is private to the scan -------------------------------------------------------------
    from props import _dbcopy
    _dbcopy.check_private_copy(repo, rep, 'writers', ce, 'an algorithm\'s notes depend on which peers were audited earlier in the same run (-T), not only on the algorithm and what was measured on this peer')

    # ---- rule 5c: what a measured-attribute writer records for one algorithm is computed in that algorithm's iteration only ---------------
    # (loop-carried dependence into the table writes of HostKeyTest.perform_test: a note list or measured value that survives from the previous
    #  key type makes an algorithm's notes depend on an unrelated algorithm advertised beside it)
    from props import _hostkey_rating
    _pt, _cands, _carried = _hostkey_rating.loop_carried_into_table(repo)
    rep.saw(_pt)
    rep.floor('writers', 'per-key-type values flowing into table writes', len(_cands), 5)
    for _v, _use, _w in _carried:
        rep.check('writers', 'value %s written for a key type is computed in that key type\'s iteration' % _v, False, _use,
                  'perform_test: `%s` can reach the table write of one host-key type with the value left by the previous type (it is not re-created in the iteration before it is read): the notes of an algorithm then depend on an unrelated algorithm probed before it' % _v,
                  witness=_w, stmt='loop-carried %s' % _v)
    _rr, _fields, _stale = _hostkey_rating.stale_measurement_fields(repo)
    for _fld, _why in _stale:
        rep.check('writers', 'measurement field %s of the reused key-exchange object is fresh for every key type' % _fld, False, _rr,
                  'KexDH.%s is %s: what is written for one host-key type depends on the type probed before it' % (_fld, _why), stmt='stale measurement field %s' % _fld)
    if not _carried:
        rep.ob('writers', 'no loop-carried value reaches the table writes of perform_test (%d values checked)' % len(_cands), True)

