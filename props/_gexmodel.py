"""Shared by C12 and C05: GEXTest.run interpreted against a server that offers both group-exchange methods and hands out a different group for each."""
import copy as _copy

from sa.core import AnalysisError, call_name
from sa.abseval import Unknown, Opaque
from sa.consteval import ConstEnv
from sa.listinterp import Interp


def both_methods_problems(repo, rep):
    """-> (number of models, [(description, problem)])"""
    gr = repo.func('gextest', 'GEXTest.run')
    db2 = ConstEnv(repo).lookup('ssh2_kexdb', 'SSH2_KexDB.MASTER_DB')
    nmodels = 0
    bad = []
    # both group-exchange methods offered by one server that hands out a different group for each: every method is measured by its own probes (the size of
    # one method says nothing about the other's)
    G1, G256 = 'diffie-hellman-group-exchange-sha1', 'diffie-hellman-group-exchange-sha256'
    for m1, m256 in ((2048, 3072), (4096, 2048), (1024, 8192), (3072, 3072)):
        for banner_sw in ('OpenSSH_9.6', 'dropbear_2022.83'):
            nmodels += 1
            table = {'kex': {G1: _copy.deepcopy(db2['kex'][G1]), G256: _copy.deepcopy(db2['kex'][G256])}}
            probes = {G1: 0, G256: 0}

            def hook2(call, env, interp, m1=m1, m256=m256, probes=probes):
                nm = call_name(call) or ''
                if nm.endswith('_send_init'):
                    alg_ = interp.value(call.args[4], env)
                    a = [interp.value(x, env) for x in call.args[5:8]]
                    if alg_ not in probes:
                        raise Unknown('_send_init for an algorithm the model does not know: %r' % (alg_,))
                    probes[alg_] += 1
                    size_ = m1 if alg_ == G1 else m256
                    if banner_sw.startswith('OpenSSH') and a == [2048, 3072, 4096] and size_ == 2048:
                        return (True, (2048, False))
                    return (True, (size_, False))
                return None
            env = {'kex.kex_algorithms': [G256, G1], 'GEX_ALGS.items()': [(G1, Opaque()), (G256, Opaque())], 'SSH2_KexDB.get_db()': table, 'banner': Opaque(), 'banner.software': banner_sw,
                   'banner is not None': True, 'banner.software is not None': True, 's.is_connected()': False}
            # the algorithm table of the function: every entry whose name is one of the two methods (class objects are opaque)
            try:
                finals = Interp(call_hook=hook2, effect_names=('set_dh_modulus_size',)).run(gr.body, env)
            except Unknown as ex:
                raise AnalysisError('GEXTest.run cannot be interpreted against a server offering both group-exchange methods: %s' % ex)
            if len(finals) != 1 or finals[0].get('<forks>'):
                raise AnalysisError('GEXTest.run (both methods): outcome depends on a condition the analysis does not model: %s' % [f.get('<forks>') for f in finals][:2])
            rep.evals()
            rec = dict((a[0], a[1]) for nm, a, k in finals[0]['<effects>'])
            if rec != {G1: m1, G256: m256} or not all(probes.values()):
                bad.append(('server handing out %d bits for sha1 and %d bits for sha256 group exchange, %s banner' % (m1, m256, banner_sw.split('_')[0]),
                            'records %s after %s probes: each method must be measured by its own probes' % (rec, probes)))
    return nmodels, bad
