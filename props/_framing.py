"""Shared by C09 and C10: symbolic byte budget of SSH_Socket.read_packet.

ReadBuf.read(n) silently returns fewer bytes when fewer are buffered; bytes of the current packet left in the stream are taken for
the next packet's header.  On every path through read_packet every consuming read on the socket must be covered by a preceding
ensure_read: the budget is a linear form over the function's length variables, ensure_read(E) raises it to E, a read of k lowers
it by k and must leave it provably non-negative; reads of `t - c` need the guard t >= c on the path."""
import ast
import re

from sa.core import AnalysisError, unparse, stmt_text

READ_COST = {'read_byte': 1, 'read_bool': 1, 'read_int': 4}


def analyse(repo, rep):
    # ReadBuf.read(n) silently returns fewer bytes when fewer are buffered; bytes of the current packet left in the
    # stream are taken for the next packet's header, which ends a well-formed peer's audit with "invalid ssh packet"
    # and no report.  So on every path through read_packet every consuming read on the socket must be covered by a
    # preceding ensure_read: symbolic budget (linear form over the function's length variables), ensure_read(E) raises
    # it to E, a read of k lowers it by k and must leave it provably non-negative.
    rp = repo.func('ssh_socket', 'SSH_Socket.read_packet')
    rep.saw(rp)
    READ_COST = {'read_byte': 1, 'read_bool': 1, 'read_int': 4}

    def linear(node, dec=None):
        """node -> ({term text: coeff}, const) for +,- over names/constants; anything else is one opaque term."""
        if isinstance(node, ast.IfExp) and dec is not None and unparse(node.test) in dec:
            return linear(node.body if dec[unparse(node.test)] else node.orelse, dec)
        if isinstance(node, ast.Constant) and isinstance(node.value, int):
            return {}, node.value
        if isinstance(node, ast.BinOp) and isinstance(node.op, (ast.Add, ast.Sub)):
            a, ca = linear(node.left, dec)
            b, cb = linear(node.right, dec)
            sgn = 1 if isinstance(node.op, ast.Add) else -1
            out = dict(a)
            for k, v in b.items():
                out[k] = out.get(k, 0) + sgn * v
            return {k: v for k, v in out.items() if v != 0}, ca + sgn * cb
        if isinstance(node, ast.UnaryOp) and isinstance(node.op, ast.USub):
            a, ca = linear(node.operand, dec)
            return {k: -v for k, v in a.items()}, -ca
        return {unparse(node): 1}, 0

    def sub(x, y):
        out = dict(x[0])
        for k, v in y[0].items():
            out[k] = out.get(k, 0) - v
        return {k: v for k, v in out.items() if v != 0}, x[1] - y[1]

    def nonneg(x):
        return all(v > 0 for v in x[0].values()) and x[1] >= 0
    framing = {'paths': 0, 'reads': 0, 'bad': [], 'covered': set()}

    def socket_reads(st):
        """consuming reads / ensure_read calls on self in evaluation order inside one simple statement"""
        out = []
        for n in ast.walk(st):
            if isinstance(n, ast.Call) and isinstance(n.func, ast.Attribute) and unparse(n.func.value) == 'self':
                if n.func.attr == 'ensure_read' and n.args:
                    out.append(('ensure', n.args[0], n))
                elif n.func.attr == 'read' and n.args:
                    out.append(('read', n.args[0], n))
                elif n.func.attr in READ_COST:
                    out.append(('read', ast.Constant(value=READ_COST[n.func.attr]), n))
                elif n.func.attr in ('read_string', 'read_list', 'read_mpint1', 'read_mpint2', 'read_line'):
                    out.append(('unbounded', None, n))
        out.sort(key=lambda t: (t[2].lineno, t[2].col_offset))
        return out

    def walk_path(stmts, budget, decisions, depth=0):
        """returns list of (budget, decisions) for fall-through paths"""
        states = [(budget, decisions)]
        for st in stmts:
            nxt = []
            for bud, dec in states:
                if isinstance(st, ast.If):
                    t = unparse(st.test)
                    for pol, blk in ((True, st.body), (False, st.orelse)):
                        if t in dec and dec[t] != pol:
                            continue
                        d2 = dict(dec)
                        d2[t] = pol
                        # reads in the test itself
                        b2 = bud
                        nxt.extend(walk_path(blk, b2, d2, depth + 1))
                    continue
                if isinstance(st, (ast.Raise, ast.Return)):
                    framing['paths'] += 1
                    for kind, amount, n in socket_reads(st):
                        if kind != 'ensure':
                            raise AnalysisError('read_packet: socket read inside a return/raise statement')
                    continue
                if isinstance(st, ast.Expr) and isinstance(st.value, ast.Call) and unparse(st.value.func) == 'sys.exit':
                    framing['paths'] += 1
                    continue
                if isinstance(st, (ast.For, ast.While, ast.Try, ast.With)):
                    if socket_reads(st):
                        raise AnalysisError('read_packet: socket read inside a compound statement (%s) -- budget walk does not model it' % stmt_text(st)[:50])
                    nxt.append((bud, dec))
                    continue
                for kind, amount, n in socket_reads(st):
                    if kind == 'ensure':
                        bud = linear(amount, dec)
                    elif kind == 'unbounded':
                        framing['bad'].append((n, 'variable-length read %s on the socket without a covering ensure_read' % unparse(n)[:40]))
                    else:
                        framing['reads'] += 1
                        if unparse(amount) == 'self.unread_len':
                            bud = ({}, 0)
                            continue
                        amt = linear(amount, dec)
                        if amt[1] < 0:
                            # read(t - c) must not be handed a negative size (ReadBuf.read(-1) drains the buffer): needs the guard t >= c on this path
                            okneg = len(amt[0]) == 1 and list(amt[0].values()) == [1] and any(
                                (re.fullmatch(re.escape(list(amt[0])[0]) + r' < (\d+)', k) and v is False and int(k.rsplit(' ', 1)[1]) >= -amt[1]) or
                                (re.fullmatch(re.escape(list(amt[0])[0]) + r' >= (\d+)', k) and v is True and int(k.rsplit(' ', 1)[1]) >= -amt[1]) for k, v in dec.items())
                            if not okneg:
                                framing['bad'].append((n, 'read of %s byte(s), which is negative for small peer-chosen lengths (no guard on this path)' % unparse(amount)))
                        left = sub(bud, amt)
                        framing['covered'].add(id(n))
                        if not nonneg(left):
                            framing['bad'].append((n, 'read of %s byte(s) with only %s ensured on a path where %s' % (unparse(amount), ' + '.join(['%s*%s' % (v, k) for k, v in bud[0].items()] + [str(bud[1])]), ' and '.join(('%s' if v else 'not (%s)') % k for k, v in dec.items()) or 'always')))
                            left = ({}, 0)
                        bud = left
                # assignment to a name the budget mentions invalidates the symbolic relation
                if isinstance(st, (ast.Assign, ast.AugAssign, ast.AnnAssign)):
                    tgts = st.targets if isinstance(st, ast.Assign) else [st.target]
                    names = {x.id for t in tgts for x in ast.walk(t) if isinstance(x, ast.Name)}
                    if any(isinstance(x, ast.Name) and x.id in names for k in bud[0] for x in ast.walk(ast.parse(k, mode='eval'))):
                        raise AnalysisError('read_packet: %s reassigns a length that an outstanding ensure_read was computed from' % stmt_text(st)[:60])
                    dec = {k: v for k, v in dec.items() if not any(isinstance(x, ast.Name) and x.id in names for x in ast.walk(ast.parse(k, mode='eval')))}
                nxt.append((bud, dec))
            states = nxt
        return states
    trys = [n for n in rp.body if isinstance(n, ast.Try)]
    # statements before the try may only set up locals (no socket read): `header = WriteBuf()` hoisted out of the try is the same function
    lead = [n for n in rp.body if not isinstance(n, ast.Try)]
    for st in lead:
        if rp.body.index(st) > rp.body.index(trys[0]) if trys else True:
            raise AnalysisError('read_packet: statements after / without the try statement: %s' % stmt_text(st)[:60])
        if not isinstance(st, (ast.Assign, ast.AnnAssign)) or any(isinstance(x, ast.Call) and isinstance(x.func, ast.Attribute) and (x.func.attr.startswith('read') or x.func.attr in ('recv', 'ensure_read')) for x in ast.walk(st)):
            raise AnalysisError('read_packet: unexpected statement before the try: %s' % stmt_text(st)[:60])
    if len(trys) != 1:
        raise AnalysisError('read_packet: expected a single try statement')
    walk_path(trys[0].body, ({}, 0), {})
    for h in trys[0].handlers:
        walk_path(h.body, ({}, 0), {})
    return rp, framing


def report(rep, framing, rule='framing'):
    rep.floor(rule, 'consuming socket reads accounted in read_packet (over all paths)', framing['reads'], 8)
    seen_bad = set()
    for n, msg in framing['bad']:
        if id(n) in seen_bad:
            continue
        seen_bad.add(id(n))
        rep.check(rule, 'socket read covered by ensure_read', False, n, 'packet framing: %s -- a short read leaves bytes of this packet in the stream and the next packet of a well-formed peer is misparsed (audit ends without a report)' % msg)
    if not framing['bad']:
        rep.ob(rule, 'every consuming socket read in read_packet is covered by a preceding ensure_read on every path (%d paths, %d reads)' % (framing['paths'], framing['reads']), True)
    rep.samples.append({'rule': rule, 'paths': framing['paths'], 'reads': framing['reads']})


# ---------------------------------------------------------------------------------------------------------------------------------------
# what the reader computes, per protocol version: the size it tests against the block size, the payload it reads, the checksum it verifies.
# Statements are linearised along the `sshv == 1` / other path; locals are substituted forward (values read from the socket become symbols).
# ---------------------------------------------------------------------------------------------------------------------------------------
def reader_model(repo):
    rp = repo.func('ssh_socket', 'SSH_Socket.read_packet')
    trys = [n for n in rp.body if isinstance(n, ast.Try)]
    if len(trys) != 1:
        raise AnalysisError('read_packet: expected a single try statement')

    def lin(node, defs):
        if isinstance(node, ast.Constant) and isinstance(node.value, int) and not isinstance(node.value, bool):
            return {}, node.value
        if isinstance(node, ast.Name) and node.id in defs:
            return defs[node.id]
        if isinstance(node, ast.BinOp) and isinstance(node.op, (ast.Add, ast.Sub)):
            a, ca = lin(node.left, defs)
            b, cb = lin(node.right, defs)
            sgn = 1 if isinstance(node.op, ast.Add) else -1
            out = dict(a)
            for k, v in b.items():
                out[k] = out.get(k, 0) + sgn * v
            return {k: v for k, v in out.items() if v != 0}, ca + sgn * cb
        return {unparse(node): 1}, 0

    def subst(node, exprs):
        class S(ast.NodeTransformer):
            def visit_Name(self, n):
                return _strip(exprs[n.id]) if isinstance(n.ctx, ast.Load) and n.id in exprs else n
        return S().visit(_strip(node))

    def subst_text(node, exprs):
        return unparse(subst(node, exprs))

    def _strip(node):
        new = type(node)()
        for f in node._fields:
            v = getattr(node, f, None)
            if isinstance(v, list):
                setattr(new, f, [_strip(x) if isinstance(x, ast.AST) else x for x in v])
            elif isinstance(v, ast.AST):
                setattr(new, f, _strip(v))
            else:
                setattr(new, f, v)
        return new
    out = {}
    for proto in (1, 2):
        defs, exprs = {}, {}
        res = {'block_tests': [], 'payload_reads': [], 'crc_tests': [], 'exits_on_block': False}

        def walk(stmts):
            for st in stmts:
                if isinstance(st, ast.If):
                    t = unparse(st.test)
                    if t in ('sshv == 1', 'sshv != 2'):
                        walk(st.body if proto == 1 else st.orelse)
                        continue
                    if t in ('sshv == 2', 'sshv != 1'):
                        walk(st.body if proto == 2 else st.orelse)
                        continue
                    for c in ast.walk(st.test):
                        if isinstance(c, ast.BinOp) and isinstance(c.op, ast.Mod) and 'block_size' in unparse(c.right):
                            res['block_tests'].append((lin(c.left, defs), unparse(st.test), st))
                    if isinstance(st.test, ast.Compare) and len(st.test.ops) == 1 and isinstance(st.test.ops[0], (ast.NotEq, ast.Eq)) and 'crc32' in subst_text(st.test, exprs):
                        res['crc_tests'].append((subst_text(st.test.left, exprs), type(st.test.ops[0]).__name__, subst_text(st.test.comparators[0], exprs), st))
                    # guards that leave the function are not followed; other branches do not define lengths in any known spelling
                    continue
                if isinstance(st, (ast.Assign, ast.AnnAssign)) and st.value is not None:
                    tg = st.targets[0] if isinstance(st, ast.Assign) else st.target
                    if isinstance(tg, ast.Name):
                        v = st.value
                        if isinstance(v, ast.Call) and isinstance(v.func, ast.Attribute) and unparse(v.func.value) == 'self' and v.func.attr in ('read_int', 'read_byte'):
                            defs[tg.id] = ({tg.id: 1}, 0)
                            exprs[tg.id] = ast.Name(id='WIRE_%s_%s' % (v.func.attr, tg.id), ctx=ast.Load())
                        elif isinstance(v, ast.Call) and isinstance(v.func, ast.Attribute) and unparse(v.func.value) == 'self' and v.func.attr == 'read' and v.args:
                            res['payload_reads'].append((tg.id, lin(v.args[0], defs)))
                            defs.pop(tg.id, None)
                            exprs.pop(tg.id, None)
                        else:
                            l = lin(v, defs)
                            defs[tg.id] = l if not (isinstance(v, ast.BinOp) and isinstance(v.op, ast.Mod)) and all('%' not in k for k in l[0]) else ({tg.id: 1}, 0)
                            if not (isinstance(v, ast.Name) and v.id == tg.id):
                                exprs[tg.id] = subst(v, exprs)
        walk(trys[0].body)
        out[proto] = res
    return rp, out
