"""Shared by C04 and C13: abstract interpretation of post_process_findings on one configuration.

Nothing is summarised: the nested helpers (_get_*_enabled / _get_*_not_enabled) are interpreted in place on concrete
representative names of each shape, the per-scan table is a small dict with the rows the function touches, and only the
warning adder is an observable effect.  The peer lists of the *other* role always hold names of every shape, so a helper that
reads the wrong role's list shows up as a warning / note / suppression on a name the audited role never offered."""
from sa.core import AnalysisError, call_name
from sa.listinterp import Interp
from sa.abseval import Opaque, Unknown

C_LIT, S_LIT = 'kex-strict-c-v00@openssh.com', 'kex-strict-s-v00@openssh.com'
GEXN = 'diffie-hellman-group-exchange-sha256'
NAMES = {'chacha': ['chacha20-poly1305@openssh.com'], 'cbc': ['aes128-cbc', '3des-cbc'], 'etm': ['hmac-sha2-256-etm@openssh.com', 'umac-128-etm@openssh.com']}
CAT = {'chacha': 'enc', 'cbc': 'enc', 'etm': 'mac'}
DB_NAMES = {'enc': ['chacha20-poly1305@openssh.com', 'aes128-cbc', '3des-cbc', 'aes192-cbc', 'aes256-cbc', 'rijndael-cbc@lysator.liu.se', 'aes128-ctr', 'aes256-gcm@openssh.com'],
            'mac': ['hmac-sha2-256-etm@openssh.com', 'umac-128-etm@openssh.com', 'hmac-sha1-etm@openssh.com', 'hmac-sha2-256', 'umac-128@openssh.com'],
            'kex': [GEXN, 'curve25519-sha256', C_LIT, S_LIT], 'key': ['ssh-ed25519']}
OTHER_ROLE = {'enc': ['chacha20-poly1305@openssh.com', 'aes192-cbc', 'aes256-gcm@openssh.com'], 'mac': ['hmac-sha1-etm@openssh.com', 'umac-128@openssh.com']}
SHAPE = {'chacha': lambda n: n.startswith('chacha20-poly1305'), 'cbc': lambda n: n.endswith('-cbc') or '-cbc@' in n, 'etm': lambda n: n.endswith('-etm@openssh.com')}
HELPERS = ('_get_chacha_ciphers_enabled', '_get_chacha_ciphers_not_enabled', '_get_cbc_ciphers_enabled', '_get_cbc_ciphers_not_enabled', '_get_etm_macs_enabled', '_get_etm_macs_not_enabled')


def offered(val):
    """name lists of the audited role for a row {chacha, cbc, etm: bool}"""
    enc = (NAMES['chacha'] if val['chacha'] else []) + ['aes128-ctr'] + (NAMES['cbc'] if val['cbc'] else [])
    mac = ['hmac-sha2-256'] + (NAMES['etm'] if val['etm'] else [])
    return enc, mac


class Tok:
    """a named opaque object with modelled attributes (algs.ssh2kex.server.mac ...), reachable through any alias"""
    def __init__(self, name, attrs=None):
        self.name = name
        self.attrs = attrs or {}

    def __repr__(self):
        return self.name

    def __deepcopy__(self, memo):
        return self


def _attr_hook(base, attr, interp):
    if isinstance(base, Tok):
        if attr in base.attrs:
            return (True, base.attrs[attr])
        raise Unknown('no model value for %r.%s' % (base, attr))
    return None


def warned(table):
    """(category, name) pairs whose table entry received a warning (row 2) during the interpretation"""
    return {(cat, n) for cat, names in table.items() for n, rows in names.items() if any(r for r in rows[1:]) and not (cat == 'kex' and n == GEXN and not any(rows[1:3]))}


def misplaced(table):
    """entries whose Terrapin text landed in a row other than row 2 (warnings)"""
    return [(cat, n, i) for cat, names in table.items() for n, rows in names.items() for i, r in enumerate(rows) if i != 2 and any('Terrapin' in str(t) for t in r)]


def interpret(repo, ppf, val, extra_env=None, kex_extra=(), extra_enc=()):
    """val: {kexp, client, c, s, chacha, cbc, etm}.  Returns (final environments, interpreter, None); every final environment carries the per-scan
    table of its own path under '<table>' (the warning adder is interpreted like every other nested helper: what counts is the table afterwards)."""
    enc, mac = offered(val)
    enc = list(enc) + list(extra_enc)       # names of Terrapin shape the rating table does not know
    role, other = ('client', 'server') if val['client'] else ('server', 'client')
    table = {cat: {n: [['x']] for n in names} for cat, names in DB_NAMES.items()}
    kexlist = ['curve25519-sha256'] + list(kex_extra) + ([C_LIT] if val['c'] else []) + ([S_LIT] if val['s'] else [])
    extra = dict(extra_env or {})
    sizes = extra.pop('algs.ssh2kex.dh_modulus_sizes()', {})
    parties = {role: Tok('<%s>' % role, {'encryption': list(enc), 'mac': list(mac), 'compression': ['none'], 'languages': ['']}),
               other: Tok('<%s>' % other, {'encryption': list(OTHER_ROLE['enc']), 'mac': list(OTHER_ROLE['mac']), 'compression': ['none'], 'languages': ['']})}
    kex = Tok('<kex>', {'kex_algorithms': kexlist, 'key_algorithms': ['ssh-ed25519'], 'client': parties['client'], 'server': parties['server']}) if val['kexp'] else None
    banner = extra.pop('banner', None)
    if banner is not None:
        banner = Tok('<banner>', {'software': extra.get('banner.software')})
    for k in ('banner is not None', 'banner is None', 'banner.software'):
        extra.pop(k, None)
    env = {'algs': Tok('<algs>', {'ssh2kex': kex, 'ssh1kex': None}), 'client_audit': val['client'], 'banner': banner, 'dh_rate_test_notes': '', '<table>': table}
    env.update(extra)

    def hook(call, e, interp):
        t = call_name(call) or ''
        if t in ('SSH2_KexDB.get_db',) and not call.args:
            return (True, e['<table>'])
        if t.endswith('.dh_modulus_sizes') and not call.args:
            return (True, dict(sizes))
        if t.endswith('.host_keys') and not call.args:
            return (True, {})
        return None

    def resolver(call):
        nm = call_name(call)
        if nm and repo.has_func('ssh_audit', 'post_process_findings.' + nm):      # every nested helper, the warning adder included
            return repo.func('ssh_audit', 'post_process_findings.' + nm)
        return None
    it = Interp(call_hook=hook, attr_hook=_attr_hook, resolver=resolver, budget=200000)
    try:
        finals = it.run(ppf.body, env)
    except Unknown as ex:
        raise AnalysisError('post_process_findings cannot be interpreted: %s' % ex)
    return finals, it, None


def expected_suppressed(val):
    """database names of the three shapes that the audited role does not offer"""
    enc, mac = offered(val) if val['kexp'] else ([], [])
    out = set()
    for k, cat in CAT.items():
        for n in DB_NAMES[cat]:
            if SHAPE[k](n) and n not in (enc if cat == 'enc' else mac):
                out.add(n)
    return out
