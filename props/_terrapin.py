"""Shared by C04 and C13: abstract interpretation of post_process_findings on one configuration.

Nothing is summarised: the nested helpers (_get_*_enabled / _get_*_not_enabled) are interpreted in place on concrete
representative names of each shape, the per-scan table is a small dict with the rows the function touches, and only the
warning adder is an observable effect.  The peer lists of the *other* role always hold names of every shape, so a helper that
reads the wrong role's list shows up as a warning / note / suppression on a name the audited role never offered."""
from sa.core import AnalysisError, call_name
from sa.listinterp import Interp
from sa.abseval import Opaque, Unknown

C_LIT, S_LIT = 'kex-strict-c-v00@openssh.com', 'kex-strict-s-v00@openssh.com'
GEXN = 'diffie-hellman-group-exchange-sha256'
NAMES = {'chacha': ['chacha20-poly1305@openssh.com'], 'cbc': ['aes128-cbc', '3des-cbc'], 'etm': ['hmac-sha2-256-etm@openssh.com', 'umac-128-etm@openssh.com']}
CAT = {'chacha': 'enc', 'cbc': 'enc', 'etm': 'mac'}
DB_NAMES = {'enc': ['chacha20-poly1305@openssh.com', 'aes128-cbc', '3des-cbc', 'aes192-cbc', 'aes256-cbc', 'rijndael-cbc@lysator.liu.se', 'aes128-ctr', 'aes256-gcm@openssh.com'],
            'mac': ['hmac-sha2-256-etm@openssh.com', 'umac-128-etm@openssh.com', 'hmac-sha1-etm@openssh.com', 'hmac-sha2-256', 'umac-128@openssh.com'],
            'kex': [GEXN, 'curve25519-sha256', C_LIT, S_LIT], 'key': ['ssh-ed25519']}
OTHER_ROLE = {'enc': ['chacha20-poly1305@openssh.com', 'aes192-cbc', 'aes256-gcm@openssh.com'], 'mac': ['hmac-sha1-etm@openssh.com', 'umac-128@openssh.com']}
SHAPE = {'chacha': lambda n: n.startswith('chacha20-poly1305'), 'cbc': lambda n: n.endswith('-cbc') or '-cbc@' in n, 'etm': lambda n: n.endswith('-etm@openssh.com')}
HELPERS = ('_get_chacha_ciphers_enabled', '_get_chacha_ciphers_not_enabled', '_get_cbc_ciphers_enabled', '_get_cbc_ciphers_not_enabled', '_get_etm_macs_enabled', '_get_etm_macs_not_enabled')


def offered(val):
    """name lists of the audited role for a row {chacha, cbc, etm: bool}"""
    enc = (NAMES['chacha'] if val['chacha'] else []) + ['aes128-ctr'] + (NAMES['cbc'] if val['cbc'] else [])
    mac = ['hmac-sha2-256'] + (NAMES['etm'] if val['etm'] else [])
    return enc, mac


def interpret(repo, ppf, val, extra_env=None, kex_extra=()):
    """val: {kexp, client, c, s, chacha, cbc, etm}.  Returns (final environments, interpreter, per-scan table)."""
    enc, mac = offered(val)
    role, other = ('client', 'server') if val['client'] else ('server', 'client')
    table = {cat: {n: [['x']] for n in names} for cat, names in DB_NAMES.items()}
    kexlist = ['curve25519-sha256'] + list(kex_extra) + ([C_LIT] if val['c'] else []) + ([S_LIT] if val['s'] else [])
    env = {
        'algs': Opaque(), 'algs.ssh2kex': Opaque() if val['kexp'] else None, 'algs.ssh2kex.kex_algorithms': kexlist,
        'algs.ssh2kex is not None': val['kexp'], 'algs.ssh2kex is None': not val['kexp'], 'client_audit': val['client'],
        'algs.ssh2kex.%s.encryption' % role: list(enc), 'algs.ssh2kex.%s.mac' % role: list(mac),
        'algs.ssh2kex.%s.encryption' % other: list(OTHER_ROLE['enc']), 'algs.ssh2kex.%s.mac' % other: list(OTHER_ROLE['mac']),
        'SSH2_KexDB.get_db()': table, 'dh_rate_test_notes': '',
    }
    env.update(extra_env or {})

    def resolver(call):
        nm = call_name(call)
        if nm and nm != '_add_terrapin_warning' and repo.has_func('ssh_audit', 'post_process_findings.' + nm):      # every nested helper except the effect
            return repo.func('ssh_audit', 'post_process_findings.' + nm)
        return None
    it = Interp(effect_names=('_add_terrapin_warning',), resolver=resolver, budget=200000)
    try:
        finals = it.run(ppf.body, env)
    except Unknown as ex:
        raise AnalysisError('post_process_findings cannot be interpreted: %s' % ex)
    return finals, it, table


def expected_suppressed(val):
    """database names of the three shapes that the audited role does not offer"""
    enc, mac = offered(val) if val['kexp'] else ([], [])
    out = set()
    for k, cat in CAT.items():
        for n in DB_NAMES[cat]:
            if SHAPE[k](n) and n not in (enc if cat == 'enc' else mac):
                out.add(n)
    return out
