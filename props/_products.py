"""Shared reading of Software.parse's product table (used by C14 and C16): the chain of
`mx = re.match(<constant pattern>, software)` statements, each followed by `if mx...: return cls(vendor, product, mx.group(1), ...)`.
Patterns are split at capture group 1 into (prefix language, version-group language, suffix language) with sa.regex_automata."""
import ast

from sa.core import AnalysisError, unparse
from sa.regex_automata import Lang, split_at_group, inclusion, Unsupported

# software-string heads of the product families the tool documents, the product label expected (None: free-text label) and whether the
# version is a dotted decimal number that the tool later orders numerically
SPEC_HEADS = [
    ('dropbear_', 'Product.DropbearSSH', True),
    ('OpenSSH_', 'Product.OpenSSH', True),
    ('OpenSSH-', 'Product.OpenSSH', True),
    ('libssh-', 'Product.LibSSH', True),
    ('libssh_', 'Product.LibSSH', True),
    ('RomSShell_', None, True),
    ('mpSSH_', None, True),
    ('Cisco-', None, True),
    ('tinyssh_', 'Product.TinySSH', False),
    ('PuTTY_Release_', 'Product.PuTTY', False),
    ('lancom', None, False),
]
DOTTED = r'\d+(\.\d+)+'


class Family:
    def __init__(self, pattern, node, block):
        self.pattern, self.node, self.block = pattern, node, block
        try:
            self.pre, self.grp, self.post = split_at_group(pattern, 1)
        except Unsupported as e:
            raise AnalysisError('product pattern %r: %s' % (pattern, e))
        self.end_anchored = pattern.endswith('$')


def families(repo):
    sp = repo.func('software', 'Software.parse')
    out = []
    for i, n in enumerate(sp.body):
        if isinstance(n, ast.Assign) and unparse(n.targets[0]) == 'mx' and isinstance(n.value, ast.Call) and unparse(n.value.func) == 're.match':
            pat = n.value.args[0]
            if not isinstance(pat, ast.Constant) or not isinstance(pat.value, str):
                raise AnalysisError('product pattern not constant: %s' % unparse(n))
            blk = next((x for x in sp.body[i + 1:] if isinstance(x, (ast.If, ast.Assign))), None)
            out.append(Family(pat.value, n, blk if isinstance(blk, ast.If) else None))
    return sp, out


def serving(fams, head):
    """The first family in chain order whose prefix accepts the literal head (that is the one that decides such a software string)."""
    for f in fams:
        if f.pre.accepts(head):
            return f
    return None


def captures_dotted(fam):
    """(ok, counter-example): every dotted decimal version is a possible value of group 1."""
    return inclusion(Lang(DOTTED), fam.grp)


def captures_only_numeric(fam):
    return inclusion(fam.grp, Lang(r'[\d.]+'))
