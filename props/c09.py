"""C09 -- no peer can crash, hang or fool the auditor (structural clauses)."""
import ast
import re

from sa.core import AnalysisError, unparse, walk_no_nested, stmt_text, call_name, bind_args, attr_chain, func_id, get_kw
from sa.logic import path_condition
from sa.cfg import CFG
from sa.callgraph import CallGraph
from sa.escape import EscapeAnalysis, Site, enclosing

EXPL = ('Decides structurally: (a) crash clause -- a least-fixed-point exception-escape analysis over the resolved call graph (explicit raise / sys.exit, a repo-specific table of partial operations on peer-derived data: '
        'struct.unpack, int(x, 16), strict decode, ord() of a slice, constant index into peer bytes, randrange over a peer-chosen range, max()/min() of a possibly empty sequence, rindex, table subscripts by peer names) computes which exception '
        'classes can leave audit(); anything but SystemExit(CONNECTION_ERROR) on single-target paths is reported with its originating site and a call chain; (b) fool clause -- probe results never feed audit()\'s status (probe calls are bare '
        'statements, probes return None), the malformed-handshake clause is C02 rule incomplete; packet framing -- on every path through SSH_Socket.read_packet each consuming socket read is covered by a preceding ensure_read (symbolic linear byte budget), so no byte of a packet is left in the stream to be taken for the next header; (c) hang clause, structural part -- every socket created on the audit path gets a finite timeout or is non-blocking before it is used, select() carries a timeout, '
        'and every loop in the network modules is classified (finite collection / grows-to-constant / deadline / buffer drain / peer-driven); a peer-driven loop without a counter or deadline is reported. '
        'Not decided: the numeric wall-clock bound and memory growth.')

NET_MODULES = ('ssh_socket', 'kexdh', 'hostkeytest', 'gextest', 'readbuf')
# modules / functions outside a standard or policy audit (explicit-request modes) -- analysed in the thorough tier only
EXPLICIT = ('dheat:DHEat.run', 'dheat:DHEat._run', 'dheat:DHEat.worker_process', 'dheat:DHEat._worker_process', 'dheat:DHEat.__init__', 'dheat:DHEat.analyze_gex', 'dheat:DHEat.get_largest_gex_modulus',
            'ssh_audit:run_gex_granular_modulus_size_test', 'ssh_audit:make_policy', 'gextest:GEXTest.granular_modulus_size_test')

# operations that look partial but are total at this site; each with the local argument that makes it so
TOTAL_HERE = {
    ('utils:Utils._to_ascii', 'UnicodeDecodeError', "r.decode('ascii')"): 'every byte appended to r passed the filter (<= 127) or is 63',
    ('utils:Utils.to_text', '*', 'raise cls._type_err'): 'type guard: callers pass str/bytes (annotated Union[str, bytes])',
    ('utils:Utils.to_bytes', '*', 'raise cls._type_err'): 'type guard: callers pass str/bytes',
    ('utils:Utils._to_ascii', '*', 'raise cls._type_err'): 'type guard: callers pass str',
    ('utils:Utils.to_text', 'UnicodeDecodeError', 'v.decode(enc)'): 'only reached for bytes; every caller on the audit path passes str (names produced by decode(..., "replace"))',
    ('utils:Utils.ctoi', 'TypeError', 'ord(c[0])'): 'c is a character obtained by iterating a str (non-empty)',
    ('fingerprint:Fingerprint.sha256', 'UnicodeDecodeError', "h.decode('ascii')"): 'base64 output is ASCII',
    ('banner:Banner.parse', 'ValueError', 'protocol = min('): 'applied to RX_PROTOCOL matches of (a part of) a string that matched RX_BANNER, which contains the version prefix, so the sequence is non-empty',
    ('banner:Banner.parse', 'ValueError', 'int(protocol['): 'RX_PROTOCOL groups are digit runs',
    ('ssh1_crc32:SSH1_CRC32.calc', 'TypeError', 'ord(v[i:i + 1])'): 'i ranges over range(len(v)), so the slice has one byte',
    ('readbuf:ReadBuf.read_mpint2', 'TypeError', 'ord(v[0:1])'): 'dominated by the len(v) == 0 early return',
    ('ssh_socket:SSH_Socket.__init__', 'ValueError', 'raise ValueError'): 'host is a str and the port was validated by AuditConf.__setattr__ (C18 rule port)',
    ('ssh1_publickeymessage:SSH1_PublicKeyMessage.__init__', 'ValueError', 'raise ValueError'): 'parse() passes 3-tuples',
    ('ssh_audit:audit', 'RuntimeError', 'raise RuntimeError'): 'the four (policy, make_policy) combinations are exhaustive; process_commandline loads a policy only when make_policy is False',
    ('ssh_audit:evaluate_policy', 'RuntimeError', 'raise RuntimeError'): 'called only under aconf.policy is not None',
    ('ssh_audit:make_policy', 'RuntimeError', 'raise RuntimeError'): 'make_policy implies policy_file is set',
    ('policy:Policy.__init__', '*', 'raise'): 'policy files are loaded before any connection is made (command-line stage), not peer-driven',
    ('auditconf:AuditConf.__setattr__', '*', 'raise ValueError'): 'configuration values are validated at the command-line stage; scan-time stores copy validated values',
    ('ssh_socket:SSH_Socket.ensure_read', 'InsufficientReadException', 'raise SSH_Socket.InsufficientReadException'): 'by design; caught by read_packet (escape from other callers is still tracked through the re-raise rule below)',
}
# ensure_read's exception must stay tracked: remove the exemption line above from the table used for tracking
del TOTAL_HERE[('ssh_socket:SSH_Socket.ensure_read', 'InsufficientReadException', 'raise SSH_Socket.InsufficientReadException')]


def _conjunct_of(node, test):
    """node is the test itself or a conjunct of it (so its truth follows from the test being true)"""
    if node is test:
        return True
    if isinstance(test, ast.BoolOp) and isinstance(test.op, ast.And):
        return any(_conjunct_of(node, v) for v in test.values)
    return False


_CFGS = {}
_BANNER_FACT = {}


def _protocol_matches_nonempty(f, arg):
    """min()/max() argument `RX_PROTOCOL.findall(X)` / `re.findall(RX_PROTOCOL, X)` inside banner.Banner where X is capture group 1 of a successful RX_BANNER
    match: the sequence is non-empty because every string group 1 can capture contains a match of RX_PROTOCOL -- a regular-language inclusion decided on the
    automata of the two constant patterns (L(group 1) is a subset of .*RX_PROTOCOL.*), plus the def-use fact that X is that group of a match tested against None."""
    if f._module.name != 'banner' or not isinstance(arg, ast.Call):
        return False
    fn = arg.func
    subject = None
    if isinstance(fn, ast.Attribute) and fn.attr == 'findall' and unparse(fn.value).endswith('RX_PROTOCOL') and len(arg.args) == 1:
        subject = arg.args[0]
    elif unparse(fn) == 're.findall' and len(arg.args) == 2 and unparse(arg.args[0]).endswith('RX_PROTOCOL'):
        subject = arg.args[1]
    if subject is None:
        return False
    # X is mx.group(1), or a name bound to it / to the first element of mx.groups(), with mx = <...>RX_BANNER.match(...)
    def match_var(e):
        if isinstance(e, ast.Call) and isinstance(e.func, ast.Attribute) and e.func.attr == 'group' and len(e.args) == 1 and isinstance(e.args[0], ast.Constant) and e.args[0].value == 1 and isinstance(e.func.value, ast.Name):
            return e.func.value.id
        return None
    mv = match_var(subject)
    if mv is None and isinstance(subject, ast.Name):
        for d in walk_no_nested(f):
            if isinstance(d, ast.Assign) and len(d.targets) == 1:
                t, v = d.targets[0], d.value
                if isinstance(t, ast.Name) and t.id == subject.id and match_var(v):
                    mv = match_var(v)
                if isinstance(t, ast.Tuple) and t.elts and isinstance(t.elts[0], ast.Name) and t.elts[0].id == subject.id and isinstance(v, ast.Call) and isinstance(v.func, ast.Attribute) and v.func.attr == 'groups' and isinstance(v.func.value, ast.Name):
                    mv = v.func.value.id
    if mv is None:
        return False
    defs = [d for d in walk_no_nested(f) if isinstance(d, ast.Assign) and len(d.targets) == 1 and isinstance(d.targets[0], ast.Name) and d.targets[0].id == mv]
    if len(defs) != 1 or not (isinstance(defs[0].value, ast.Call) and isinstance(defs[0].value.func, ast.Attribute) and defs[0].value.func.attr == 'match' and unparse(defs[0].value.func.value).endswith('RX_BANNER')):
        return False
    from sa.logic import implied_atoms as _ia3
    stmt = arg
    while stmt is not None and not isinstance(stmt, ast.stmt):
        stmt = getattr(stmt, '_parent', None)
    atoms = {(unparse(t), p) for t, p in _ia3(path_condition(stmt))}
    if not (atoms & {('%s is None' % mv, False), ('%s is not None' % mv, True), (mv, True), ('not %s' % mv, False)}):
        return False
    key = id(f._module)
    if key not in _BANNER_FACT:
        _BANNER_FACT[key] = _banner_group1_contains_protocol(f)
    return _BANNER_FACT[key]


def _banner_group1_contains_protocol(f):
    import re as _re
    from sa.consteval import ConstEnv, NotLiteral
    from sa.regex_automata import Lang, inclusion, split_at_group, Unsupported
    cls = f._cls
    if cls is None:
        return False
    exprs = {}
    for st in cls.body:
        if isinstance(st, ast.Assign) and len(st.targets) == 1 and isinstance(st.targets[0], ast.Name):
            exprs[st.targets[0].id] = st.value
        if isinstance(st, ast.Assign) and len(st.targets) == 1 and isinstance(st.targets[0], ast.Tuple) and isinstance(st.value, ast.Tuple) and len(st.targets[0].elts) == len(st.value.elts):
            for t_, v_ in zip(st.targets[0].elts, st.value.elts):
                if isinstance(t_, ast.Name):
                    exprs[t_.id] = v_
    try:
        ce = ConstEnv(f._module._repo) if hasattr(f._module, '_repo') else None
    except Exception:      # noqa: BLE001
        ce = None

    def const(e, depth=0):
        # tiny constant folder for the pattern algebra of the class body: strings, names of class-level strings, str.format, re.sub / re.compile on constants
        if isinstance(e, ast.Constant) and isinstance(e.value, str):
            return e.value
        if isinstance(e, ast.Name) and e.id in exprs and depth < 6:
            return const(exprs[e.id], depth + 1)
        if isinstance(e, ast.Call) and unparse(e.func) == 're.compile' and e.args:
            return const(e.args[0], depth + 1)
        if isinstance(e, ast.Call) and unparse(e.func) == 're.sub' and len(e.args) == 3:
            a, b, c = [const(x, depth + 1) for x in e.args]
            return _re.sub(a, b, c)
        if isinstance(e, ast.Call) and isinstance(e.func, ast.Attribute) and e.func.attr == 'format' and not e.keywords:
            return const(e.func.value, depth + 1).format(*[const(x, depth + 1) for x in e.args])
        raise ValueError(unparse(e))
    try:
        banner, proto = const(exprs['RX_BANNER']), const(exprs['RX_PROTOCOL'])
        pre, grp, post = split_at_group(banner, 1)
        ok, _info = inclusion(grp, Lang('^.*(?:%s).*$' % proto.replace('(', '(?:')))
        return bool(ok)
    except (KeyError, ValueError, Unsupported, AnalysisError, _re.error):
        return False


def _nonempty_on_all_paths(f, site, name):
    """Every path of f's control-flow graph (exception edges excluded) to the statement holding `site` passes a branch that establishes `name` non-empty
    (the false branch of `if not name` / `if len(name) == 0`, the true branch of `if name` / `if len(name) > 0`), and `name` is not re-assigned (other than to itself)
    between that branch and the site."""
    from sa.cfg import CFG
    if not isinstance(f, (ast.FunctionDef, ast.AsyncFunctionDef)) or not name.isidentifier():
        return False
    if id(f) not in _CFGS:
        _CFGS[id(f)] = CFG(f, exc_edges=False)
    c = _CFGS[id(f)]
    st = site
    while st is not None and not isinstance(st, ast.stmt):
        st = getattr(st, '_parent', None)
    targets = c.stmts_matching(lambda s: s is st)
    if not targets:
        return False
    gates = []
    for n in c.nodes:
        if n.kind != 'branch' or not isinstance(n.stmt, (ast.If, ast.While)):
            continue
        t = unparse(n.stmt.test)
        if (t in ('not %s' % name, 'len(%s) == 0' % name) and n.label == 'F') or (t in (name, 'len(%s) > 0' % name) and n.label == 'T'):
            gates.append(n)
    if not gates:
        return False
    if c.find_path([c.entry], targets, avoid=gates) is not None:
        return False

    def kills(s):
        if isinstance(s, (ast.Assign, ast.AnnAssign, ast.AugAssign)):
            tg = s.targets if isinstance(s, ast.Assign) else [s.target]
            if any(isinstance(x, ast.Name) and x.id == name for t in tg for x in ast.walk(t)):
                return not (isinstance(s, ast.Assign) and isinstance(s.value, ast.Name) and s.value.id == name)
        if isinstance(s, (ast.For,)):
            return any(isinstance(x, ast.Name) and x.id == name for x in ast.walk(s.target))
        return False
    knodes = c.stmts_matching(kills)
    after_gate = c.reachable(gates)
    for k in knodes:
        if k in after_gate and c.find_path(list(k.succ), targets, avoid=gates) is not None:
            return False
    return True


_MODEL_SITES = {}


def model_sites(repo):
    """Definite runtime exceptions the interpretation model of the host-key probe (props/_hostkey_rating.probe) meets on hostile measurements: the reply of a
    probe carries a peer-chosen host-key blob, so the CA key type is any string and the sizes any number.  Every crash the model proves is a partial-operation
    site; whether it escapes audit() is decided by the escape analysis like for every other site."""
    import re as _re2
    from props import _hostkey_rating
    from sa.consteval import ConstEnv
    _MODEL_SITES.clear()
    consts = _hostkey_rating.class_consts(repo, ConstEnv(repo), 'hostkeytest', 'HostKeyTest')
    cases = []
    for hkt in ('ssh-rsa-cert-v01@openssh.com', 'ssh-ed25519-cert-v01@openssh.com'):
        for cat in ('', 'x', 'sk-ssh-ed25519@openssh.com', 'ssh-ed448', 'ssh-rsa', 'rsa-sha2-512', 'ssh-dss', 'ssh-ed25519', 'ecdsa-sha2-nistp256', 'ecdsa-sha2-nistp999'):
            for hs, cs in ((0, 0), (256, 0), (256, 1), (4096, 4096), (1, 256), (2048, 2048)):
                cases.append((hkt, True, hs, cat, cs))
    for hkt in ('ssh-rsa', 'rsa-sha2-256', 'ssh-ed25519', 'ssh-ed448', 'ssh-dss', 'ecdsa-sha2-nistp256', 'sk-ssh-ed25519@openssh.com'):
        for hs in (0, 1, 256, 4096):
            cases.append((hkt, False, hs, '', 0))
    n = 0
    for c in cases:
        ev_ = _hostkey_rating.probe(repo, consts, [c])
        n += 1
        if not ev_['crash']:
            continue
        m = _re2.match(r'^(.*) raises (\w+) \((?:.*/)?(\w+)\.py:(\d+)\)$', ev_['crash'])
        if not m:
            raise AnalysisError('probe model: crash text not understood: %s' % ev_['crash'])
        text, exc, modname, line = m.group(1), m.group(2), m.group(3), int(m.group(4))
        found = None
        for f in repo.all_funcs().values():
            if f._module.name != modname:
                continue
            for x in walk_no_nested(f):
                if isinstance(x, ast.expr) and getattr(x, 'lineno', None) == line and unparse(x) == text:
                    found = (f, x)
        if found is None:
            raise AnalysisError('probe model: crash site not found in the tree: %s' % ev_['crash'])
        f, x = found
        key = (func_id(f), text, exc)
        if key not in {(func_id(s.func), unparse(s.node), s.exc) for s in _MODEL_SITES.get(func_id(f), [])}:
            _MODEL_SITES.setdefault(func_id(f), []).append(Site(exc, x, 'proved by the probe model for (type, certificate, size, CA type, CA size) = %r' % (c,), f))
    return n


def partial_sites(f):
    """Repo-specific partial operations (frozen table; each pattern confirmed by reading)."""
    out = list(_MODEL_SITES.get(func_id(f), []))
    mod = f._module.name
    # names assigned from KexDH.__get_bytes (peer bytes of unknown length)
    peer_bytes = set()
    for n in walk_no_nested(f):
        if isinstance(n, ast.Assign) and isinstance(n.value, ast.Call) and (call_name(n.value) or '').endswith('__get_bytes') and isinstance(n.targets[0], ast.Tuple):
            first = n.targets[0].elts[0]
            if isinstance(first, ast.Name):
                peer_bytes.add(first.id)
    for n in walk_no_nested(f):
        if isinstance(n, ast.Call):
            fn = unparse(n.func)
            if fn == 'struct.unpack':
                out.append(Site('struct.error', n, 'struct.unpack on fewer bytes than the format needs', f))
            elif isinstance(n.func, ast.Name) and n.func.id == 'int' and len(n.args) == 2 and not isinstance(n.args[0], ast.Constant):
                out.append(Site('ValueError', n, 'int(x, base) of possibly empty/non-numeric text', f))
            elif isinstance(n.func, ast.Name) and n.func.id == 'int' and len(n.args) == 1 and isinstance(n.args[0], ast.Subscript) and mod in ('banner',):
                out.append(Site('ValueError', n, 'int() of a regex group', f))
            elif isinstance(n.func, ast.Attribute) and n.func.attr == 'decode':
                args = [a.value for a in n.args if isinstance(a, ast.Constant)]
                kw = get_kw(n, 'errors')
                lenient = any(a in ('replace', 'ignore', 'backslashreplace') for a in args) or (kw is not None and isinstance(kw, ast.Constant) and kw.value in ('replace', 'ignore'))
                if not lenient:
                    out.append(Site('UnicodeDecodeError', n, 'strict decode of peer bytes', f))
            elif isinstance(n.func, ast.Name) and n.func.id == 'ord' and n.args:
                a = n.args[0]
                base = unparse(a.value) if isinstance(a, ast.Subscript) else unparse(a)
                from sa.logic import implied_atoms as _ia
                guarded = any((unparse(t) == 'len(%s) == 0' % base and p is False) or (unparse(t) in ('len(%s) > 0' % base, 'len(%s) >= 1' % base) and p is True) or (unparse(t) == base and p is True) for t, p in _ia(path_condition(n)))
                if not guarded:
                    guarded = _nonempty_on_all_paths(f, n, base)
                if not guarded:
                    out.append(Site('TypeError', n, 'ord() of a slice that may be empty', f))
            elif isinstance(n.func, ast.Attribute) and n.func.attr == 'randrange':
                out.append(Site('ValueError', n, 'randrange over a range that is empty for a peer-chosen modulus p <= 5', f))
            elif isinstance(n.func, ast.Name) and n.func.id in ('max', 'min') and len(n.args) == 1 and get_kw(n, 'default') is None:
                a = n.args[0]
                if isinstance(a, (ast.GeneratorExp, ast.ListComp, ast.Name, ast.Call, ast.Attribute)) and not _protocol_matches_nonempty(f, a):
                    out.append(Site('ValueError', n, '%s() of a possibly empty sequence' % n.func.id, f))
            elif isinstance(n.func, ast.Attribute) and n.func.attr in ('index', 'rindex') and n.args and isinstance(n.args[0], ast.Constant) and isinstance(n.args[0].value, str):
                # containment fact: on the path the same string is known to start/end with (or contain) a literal that contains the needle
                recv, needle = unparse(n.func.value), n.args[0].value
                fact = False
                # filters of an enclosing comprehension hold for the element expression
                comp_conds = []
                q = n
                while q is not None and not isinstance(q, (ast.FunctionDef, ast.stmt)):
                    par = getattr(q, '_parent', None)
                    if isinstance(par, (ast.ListComp, ast.SetComp, ast.GeneratorExp, ast.DictComp)) and q is not par.generators[0]:
                        for g in par.generators:
                            comp_conds.extend((c, True, 'comp') for c in g.ifs)
                    q = par
                from sa.logic import implied_atoms
                for c, truth in implied_atoms(list(path_condition(n)) + comp_conds):
                    if not truth:
                        continue
                    if isinstance(c, ast.Call) and isinstance(c.func, ast.Attribute) and c.func.attr in ('startswith', 'endswith') and unparse(c.func.value) == recv and c.args and isinstance(c.args[0], ast.Constant) \
                            and isinstance(c.args[0].value, str) and needle in c.args[0].value:
                        fact = True
                    if isinstance(c, ast.Compare) and len(c.ops) == 1 and isinstance(c.ops[0], ast.In) and isinstance(c.left, ast.Constant) and isinstance(c.left.value, str) and needle in c.left.value \
                            and unparse(c.comparators[0]) == recv:
                        fact = True
                if not fact:
                    out.append(Site('ValueError', n, 'str.%s without a containment fact' % n.func.attr, f))
        elif isinstance(n, ast.Subscript) and isinstance(n.ctx, ast.Load):
            if isinstance(n.value, ast.Name) and n.value.id in peer_bytes and isinstance(n.slice, ast.Constant) and isinstance(n.slice.value, int):
                out.append(Site('IndexError', n, 'constant index into peer bytes whose real length is not checked', f))
            # table subscript by a non-literal (peer-derived) key without a dominating membership test
            if unparse(n) == 'db[category][algorithm_name]' and isinstance(n._parent, (ast.Call, ast.Attribute, ast.Subscript)) and not any('algorithm_name' in unparse(t) and ' in ' in unparse(t) for t, p, k in path_condition(n)):
                if not any(isinstance(s.node, ast.Subscript) and unparse(s.node) == unparse(n) for s in out):
                    out.append(Site('KeyError', n, 'rating-table subscript by a peer-supplied name', f))
    return out


def classify_loop(lp, func):
    """(class, detail) for a loop."""
    if isinstance(lp, ast.For):
        it = unparse(lp.iter)
        return 'finite-collection', it[:60]
    test = unparse(lp.test)
    body_txt = ' '.join(unparse(s) for s in lp.body)
    if isinstance(lp.test, ast.Compare) and 'len(' in test and any(isinstance(op, (ast.Lt, ast.LtE)) for op in lp.test.ops) and '.append(' in body_txt and isinstance(lp.test.comparators[0], ast.Constant):
        return 'grows-to-constant', test
    if 'time.time()' in body_txt and ('max_time' in body_txt or 'start_timer' in body_txt):
        return 'deadline', test
    if 'time_elapsed' in body_txt and 'timeout' in body_txt:
        return 'deadline', test
    from sa.logic import implied_atoms as _ia2
    if any(unparse(a) == 'self.unread_len > 0' and tr for a, tr in _ia2([(lp.test, True, 'while')])) and 'self.read_line()' in body_txt:
        return 'buffer-drain', test      # runs only while unread buffered bytes remain, and every iteration consumes a line of them
    if test in ('self.unread_len < size',):
        return 'peer-driven (bounded by requested size, one recv timeout per iteration)', test
    if isinstance(lp.test, ast.Constant) and lp.test.value is True:
        # while True with a break on a shrinking local collection
        brk = [s for s in lp.body if isinstance(s, ast.If) and any(isinstance(x, ast.Break) for x in s.body)]
        if brk and any(unparse(b.test).startswith('len(') and unparse(b.test).endswith('== 0') for b in brk) and ('del ' in body_txt or '_close_socket(' in body_txt):
            return 'shrinks-to-empty', unparse(brk[0].test)
        if brk and any('time_elapsed' in unparse(b.test) or 'max_time' in unparse(b.test) or 'len(fds[0]) > 0' in unparse(b.test) for b in brk):
            return 'deadline', unparse(brk[0].test)
    return 'peer-driven', test


def run(repo, rep, tier):
    rep.explanation = EXPL
    cg = CallGraph(repo)
    au = repo.func('ssh_audit', 'audit')
    rep.saw(au)

    # ---- fool clause: a malformed (truncated) algorithm message is not taken for a complete one (rule shared with C02)
    from props import _truncation
    _truncation.check_truncation(repo, rep, 'fool')

    def skip(f):
        fid = func_id(f)
        if tier == 'thorough':
            return False
        return fid in EXPLICIT or (fid.startswith('dheat:') and fid not in ('dheat:DHEat.dh_rate_test', 'dheat:DHEat._dh_rate_test', 'dheat:DHEat._resolve_hostname', 'dheat:DHEat._dh_rate_test._close_socket'))
    from props import _framing
    READ_COST = _framing.READ_COST
    rp, framing = _framing.analyse(repo, rep)
    uncovered = {id(n) for n, msg in framing['bad']}

    def edge_filter(f, call, callee, site):
        # struct.unpack inside read_int/read_byte cannot come up short when the call is covered by the read budget established above
        if site.exc != 'struct.error' or callee.name not in READ_COST or not isinstance(call, ast.Call) or f is not rp:
            return False
        return id(call) in framing['covered'] and id(call) not in uncovered
    rep.extra['probe_model_hostile_cases'] = model_sites(repo)
    ea = EscapeAnalysis(repo, cg, partial_sites, skip_func=skip, total_here=TOTAL_HERE, edge_filter=edge_filter)
    rep.extra['total_here_exemptions_used'] = sorted('%s | %s | %s' % k for k in ea.used_exemptions)

    # ---- rule 1/2: escape set of audit ---------------------------------------------------------------------------------
    reach = cg.reachable([au])
    nsites = sum(len(partial_sites(f)) for f in reach if not skip(f))
    rep.extra['partial_operation_sites_on_audit_path'] = nsites
    rep.floor('escape', 'partial-operation sites classified on the audit path', nsites, 20)
    esc = ea.of(au)
    seen = set()
    for s, chain in sorted(esc, key=lambda x: (func_id(x[0].func), x[0].node.lineno)):
        if s.exc == 'SystemExit':
            code = unparse(s.node.args[0]) if s.node.args else ''
            ok = code == 'exitcodes.CONNECTION_ERROR' or func_id(s.func) in ('ssh_audit:make_policy',)
            rep.check('escape', 'sys.exit on the audit path exits with CONNECTION_ERROR: %s' % func_id(s.func), ok, s.node, 'audit can end through sys.exit(%s) in %s' % (code, func_id(s.func)), witness=list(chain))
            continue
        if s.exc == 'KeyboardInterrupt':
            continue
        explicit = func_id(s.func) in EXPLICIT or func_id(s.func).startswith('dheat:DHEat.') and func_id(s.func) not in ('dheat:DHEat._dh_rate_test',)
        if explicit and tier == 'thorough':
            rep.note('explicit-mode site (reported separately, not a violation of the standard audit): %s in %s: %s' % (s.exc, func_id(s.func), stmt_text(enclosing(s.node))[:80]))
            continue
        rep.check('escape', 'no %s can escape audit() from %s: %s' % (s.exc, func_id(s.func), stmt_text(enclosing(s.node))[:60]), False, s.node,
                  '%s (%s) can propagate out of audit(): the scan ends with the internal-error status / a traceback instead of a documented status' % (s.exc, s.desc), witness=list(chain), stmt='%s @ %s' % (s.exc, stmt_text(enclosing(s.node))))
    rep.ob('escape', 'escape set of audit() computed (%d element(s))' % len(esc), True, sample={'rule': 'escape', 'escape_set_size': len(esc), 'example_chain': list(esc[0][1]) if esc else []})
    # handled sites: how many partial operations are caught on every chain (evidence)
    handled = 0
    for f in reach:
        if skip(f):
            continue
        for s in partial_sites(f):
            if s.key() not in ea.escape.get(au, {}):
                handled += 1
    rep.extra['partial_sites_handled_or_total'] = handled

    # ---- time clause: work whose amount the peer chooses -----------------------------------------------------------------------
    # A modular exponentiation pow(g, x, p) costs time cubic in the size of p.  For the fixed groups p is a constant of the tool; for group exchange the
    # peer hands out p (KexGroupExchange.send_init_gex -> set_params -> send_init).  Rule: on every path of send_init_gex from the statement that parses the
    # modulus to the call that installs it (set_params), a branch compares the modulus (or its length) against an upper bound -- otherwise the time one probe
    # takes is chosen by the peer, not bounded by the timeout.
    from sa.cfg import CFG as _CFG9
    kd = repo.cls('kexdh', 'KexDH')
    pows = [n for f in [x for x in kd.body if isinstance(x, ast.FunctionDef)] for n in walk_no_nested(f) if isinstance(n, ast.Call) and isinstance(n.func, ast.Name) and n.func.id == 'pow' and len(n.args) == 3]
    rep.floor('cost', 'three-argument pow() sites in KexDH', len(pows), 1)
    sgx = repo.func('kexdh', 'KexGroupExchange.send_init_gex')
    rep.saw(sgx)
    cg9 = _CFG9(sgx, exc_edges=False)
    installs = cg9.stmts_matching(lambda st: isinstance(st, ast.Expr) and isinstance(st.value, ast.Call) and isinstance(st.value.func, ast.Attribute) and st.value.func.attr == 'set_params')
    rep.floor('cost', 'set_params call in send_init_gex', len(installs), 1)
    pargs = set()
    for st_ in installs:
        a_ = st_.stmt.value.args
        if len(a_) == 2 and isinstance(a_[1], ast.Name):
            pargs.add(a_[1].id)
    if not pargs:
        raise AnalysisError('send_init_gex: the modulus argument of set_params is not a plain local')
    pname = sorted(pargs)[0]
    pdefs = [n for n in walk_no_nested(sgx) if isinstance(n, (ast.Assign, ast.AnnAssign)) and any(isinstance(x, ast.Name) and x.id == pname and isinstance(x.ctx, ast.Store) for t in (n.targets if isinstance(n, ast.Assign) else [n.target]) for x in ast.walk(t))]
    if not pdefs:
        raise AnalysisError('send_init_gex: no statement defines the modulus %s that set_params installs' % pname)
    size_names = {pname} | {x.id for d_ in pdefs for x in ast.walk(d_.value) if isinstance(x, ast.Name) and x.id.endswith('_len')}

    def bounds_modulus(node):
        if node.kind != 'branch' or not isinstance(node.stmt, (ast.If, ast.While)):
            return False
        for c_ in ast.walk(node.stmt.test):
            if isinstance(c_, ast.Compare) and any(isinstance(o_, (ast.Gt, ast.GtE, ast.Lt, ast.LtE)) for o_ in c_.ops):
                names_ = {x.id for x in ast.walk(c_) if isinstance(x, ast.Name)}
                if names_ & size_names or any(isinstance(x, ast.Attribute) and x.attr == 'bit_length' and isinstance(x.value, ast.Name) and x.value.id == pname for x in ast.walk(c_)):
                    return True
        return False
    gates9 = [n for n in cg9.nodes if bounds_modulus(n)]
    starts9 = set()
    for d_ in pdefs:
        for nd_ in cg9.nodes_of(d_):
            starts9 |= set(nd_.succ)
    pth9 = cg9.find_path(list(starts9), installs, avoid=gates9) if starts9 else None
    if not starts9:
        raise AnalysisError('send_init_gex: the definition of the modulus has no successor in the control-flow graph')
    rep.check('cost', 'the size of a peer-supplied group-exchange modulus is bounded before it is used for the exponentiation', pth9 is None, sgx,
              'send_init_gex installs the modulus the peer handed out without an upper bound on its size; send_init then computes pow(g, x, p) with an exponent as long as p: the time of one probe grows with the cube of a size the peer chooses (a 32768-bit "group" costs ~16 s, 65536 bits minutes) and is not limited by the timeout (-t)',
              func='kexdh:KexGroupExchange.send_init_gex', stmt='peer-chosen modulus size is not bounded before the exponentiation')
    # ---- fool clause: probe isolation ------------------------------------------------------------------------------------
    for call in ('HostKeyTest.run', 'GEXTest.run'):
        cs = [n for n in walk_no_nested(au) if isinstance(n, ast.Call) and call_name(n) == call]
        rep.floor('probe-isolation', 'call of %s in audit' % call, len(cs), 1)
        for c in cs:
            rep.check('probe-isolation', '%s is a bare statement in audit (its result cannot reach the status)' % call, isinstance(c._parent, ast.Expr), c, 'result of %s is used by audit()' % call)
    for fq in (('hostkeytest', 'HostKeyTest.run'), ('hostkeytest', 'HostKeyTest.perform_test'), ('gextest', 'GEXTest.run')):
        f = repo.func(*fq)
        rets = [r for r in walk_no_nested(f) if isinstance(r, ast.Return) and r.value is not None and not (isinstance(r.value, ast.Constant) and r.value.value is None)]
        rep.check('probe-isolation', '%s returns nothing' % fq[1], not rets, rets[0] if rets else f, '%s returns a value' % fq[1])
    # nothing -- not even SystemExit -- may leave a probe: "misbehaviour confined to the later probes still leaves a complete algorithm report"
    for fq in (('hostkeytest', 'HostKeyTest.run'), ('gextest', 'GEXTest.run'), ('dheat', 'DHEat.dh_rate_test')):
        pf = repo.func(*fq)
        rep.saw(pf)
        for s_, chain in sorted(ea.of(pf), key=lambda x: (func_id(x[0].func), x[0].node.lineno)):
            if s_.exc == 'KeyboardInterrupt':
                continue
            rep.check('probe-isolation', 'no %s leaves the probe %s' % (s_.exc, fq[1]), False, s_.node,
                      '%s (%s) raised in %s can leave the probe %s: the initial handshake was fine, but the audit ends here without the algorithm report' % (s_.exc, s_.desc, func_id(s_.func), fq[1]),
                      witness=list(chain), stmt='%s leaving %s @ %s' % (s_.exc, fq[1], stmt_text(enclosing(s_.node))))
    rt = [n for n in walk_no_nested(au) if isinstance(n, ast.Assign) and isinstance(n.value, ast.Call) and call_name(n.value) == 'DHEat.dh_rate_test']
    for n in rt:
        rep.check('probe-isolation', 'the rate test only yields notes', unparse(n.targets[0]) == 'dh_rate_test_notes', n, 'rate test result assigned to %s' % unparse(n.targets[0]))
    for r in walk_no_nested(au):
        if isinstance(r, ast.Return) and r.value is not None and 'dh_rate_test_notes' in unparse(r.value):
            rep.check('probe-isolation', 'rate test notes are not a status', False, r, 'audit returns the rate test result')

    # ---- hang clause: timeouts ---------------------------------------------------------------------------------------------
    for f in reach:
        if skip(f) and not func_id(f).startswith('dheat:DHEat._dh_rate_test'):
            continue
        creations = [n for n in walk_no_nested(f) if isinstance(n, ast.Assign) and isinstance(n.value, ast.Call) and unparse(n.value.func) == 'socket.socket']
        if not creations:
            continue
        rep.saw(f)
        c = CFG(f, exc_edges=False)
        for cr in creations:
            var = unparse(cr.targets[0])
            if func_id(f) == 'ssh_socket:SSH_Socket.listen_and_accept':
                # listening sockets are only used through select() with a timeout and accept(); the accepted connection gets the timeout
                acc = [n for n in walk_no_nested(f) if isinstance(n, ast.Call) and isinstance(n.func, ast.Attribute) and n.func.attr == 'accept']
                st = [n for n in walk_no_nested(f) if isinstance(n, ast.Call) and unparse(n.func) == 'c.settimeout']
                rep.check('timeouts', 'accepted client connection gets the configured timeout', len(acc) == 1 and len(st) == 1 and unparse(st[0].args[0]) == 'self.__timeout', cr, 'accepted connection has no timeout')
                continue
            gates = c.stmts_matching(lambda st: not isinstance(st, (ast.If, ast.For, ast.While, ast.With, ast.Try)) and any(isinstance(x, ast.Call) and unparse(x.func) in ('%s.settimeout' % var, '%s.setblocking' % var) for x in walk_no_nested(st)))
            uses_ = c.stmts_matching(lambda st: not isinstance(st, (ast.If, ast.For, ast.While, ast.With, ast.Try)) and any(isinstance(x, ast.Call) and isinstance(x.func, ast.Attribute) and unparse(x.func.value) == var and x.func.attr in ('connect', 'connect_ex', 'recv', 'send', 'accept') for x in walk_no_nested(st)))
            crn = c.nodes_of(cr)
            starts = set()
            for x in crn:
                starts |= x.succ
            p = c.find_path(list(starts), uses_, avoid=gates)
            rep.check('timeouts', '%s: socket %s gets a timeout / non-blocking mode before it is used' % (func_id(f), var), p is None and bool(gates), cr, 'socket %s can be used without a timeout in %s' % (var, func_id(f)))
            for g in gates:
                for x in walk_no_nested(g.stmt):
                    if isinstance(x, ast.Call) and unparse(x.func) == '%s.settimeout' % var:
                        a = unparse(x.args[0])
                        # finite: not the literal None, and a local name is never bound to None in this function
                        arg0 = x.args[0]
                        finite = not (isinstance(arg0, ast.Constant) and arg0.value is None)
                        if finite and isinstance(arg0, ast.Name):
                            defs = [d for d in walk_no_nested(f) if isinstance(d, ast.Assign) and any(isinstance(t, ast.Name) and t.id == arg0.id for t in d.targets)]
                            finite = not any(isinstance(d.value, ast.Constant) and d.value.value is None for d in defs)
                        rep.check('timeouts', 'timeout value is finite (never None)', finite, x, 'settimeout(%s) can switch the socket to blocking-forever' % a)
        for n in walk_no_nested(f):
            if isinstance(n, ast.Call) and unparse(n.func) == 'select.select':
                rep.check('timeouts', '%s: select() carries a timeout' % func_id(f), len(n.args) == 4 and not (isinstance(n.args[3], ast.Constant) and n.args[3].value is None), n, 'select() without timeout')
    ss = repo.func('ssh_socket', 'SSH_Socket.__init__')
    tdef = [n for n in walk_no_nested(ss) if isinstance(n, ast.Assign) and unparse(n.targets[0]) == 'self.__timeout']
    rep.check('timeouts', 'the socket timeout field is the constructor argument (default 5)', len(tdef) == 1 and unparse(tdef[0].value) == 'timeout', ss, 'timeout field source changed')
    tsets = [n for m in repo.modules.values() for n in ast.walk(m.tree) if isinstance(n, ast.Call) and isinstance(n.func, ast.Attribute) and n.func.attr in ('settimeout',) and n.args and isinstance(n.args[0], ast.Constant) and n.args[0].value is None]
    rep.check('timeouts', 'no socket is switched to blocking-forever', not tsets, tsets[0] if tsets else ss, 'settimeout(None) used')
    rv = repo.func('ssh_socket', 'SSH_Socket.recv')
    hs = [unparse(h.type) for t in walk_no_nested(rv) if isinstance(t, ast.Try) for h in t.handlers]
    rep.check('timeouts', 'recv converts socket.timeout and socket.error into error returns', 'socket.timeout' in hs and 'socket.error' in hs, rv, 'recv handlers are %s' % hs)

    # ---- hang clause: loop bounds ---------------------------------------------------------------------------------------------
    nloops = 0
    classes = {}
    for (m, q), f in sorted(repo.all_funcs().items()):
        inscope = m in NET_MODULES or (m == 'dheat' and q.startswith('DHEat._dh_rate_test')) or (m == 'ssh_audit' and q in ('audit', 'output', 'post_process_findings'))
        if not inscope:
            continue
        for lp in walk_no_nested(f):
            if isinstance(lp, (ast.While, ast.For)):
                nloops += 1
                cls_, detail = classify_loop(lp, f)
                classes.setdefault(cls_, []).append('%s:%s L%d %s' % (m, q, lp.lineno, detail[:50]))
                if cls_ == 'peer-driven':
                    body_txt = ' '.join(unparse(s) for s in lp.body)
                    counters = {x.target.id for x in ast.walk(lp) if isinstance(x, ast.AugAssign) and isinstance(x.op, ast.Add) and isinstance(x.target, ast.Name)}
                    test_bound = isinstance(lp, ast.While) and any(isinstance(x, ast.Compare) and any(isinstance(o, (ast.Lt, ast.LtE)) for o in x.ops) and isinstance(x.left, ast.Name) and x.left.id in counters for x in ast.walk(lp.test))
                    bounded = test_bound or any(isinstance(x, ast.AugAssign) for x in ast.walk(lp)) and any(isinstance(x, ast.Compare) and any(isinstance(o, (ast.Gt, ast.GtE, ast.Lt, ast.LtE)) for o in x.ops) for s in lp.body for x in ast.walk(s) if isinstance(s, ast.If))
                    # the finding is keyed by what drives the loop (the socket read its body performs), not by how its test is spelled
                    drivers = [unparse(x.func) for s_ in lp.body for x in ast.walk(s_) if isinstance(x, ast.Call) and isinstance(x.func, ast.Attribute) and x.func.attr in ('recv', 'read_packet', 'recvfrom', 'accept')]
                    key_ = 'peer-driven loop around %s' % drivers[0] if drivers else stmt_text(lp)
                    rep.check('loops', 'peer-driven loop has a counter or deadline: %s.%s `%s`' % (m, q, stmt_text(lp)[:50]), bounded, lp,
                              'loop `%s` in %s.%s runs as long as the peer keeps feeding it (no iteration cap or deadline): a peer can keep the audit alive indefinitely' % (stmt_text(lp)[:70], m, q), stmt=key_)
                else:
                    rep.ob('loops', '%s.%s L%d classified %s' % (m, q, lp.lineno, cls_), True)
    rep.extra['loop_classes'] = {k: len(v) for k, v in classes.items()}
    rep.samples.append({'rule': 'loops', 'classes': {k: v[:4] for k, v in classes.items()}})
    rep.floor('loops', 'loops classified in the network modules', nloops, 20)
    # ---- fool clause: packet framing (computed above, before the escape analysis that uses it)
    _framing.report(rep, framing, 'framing')
    rep.note('observation: SSH_Socket.ensure_read loops until a peer-chosen byte count (up to 2^32-1) has arrived; each iteration consumes at least one byte or ends with a timeout/close, so it is bounded by size x timeout, not by a byte cap')
    rep.assumptions = ['partial-operation table and the total-here table are hand-confirmed (see TOTAL_HERE reasons in /verif/props/c09.py)', 'resolver over-approximation can only add escapes', 'OS-level errors not driven by peer bytes (EMFILE, resolver failures after a successful first resolution) are outside the table']
