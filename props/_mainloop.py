"""Model of ssh_audit.main() for a multi-target run, by abstract interpretation (sa/listinterp.py): the command line yields a configuration with a target list,
the pool hands back one (status, text) pair per target in an arbitrary completion order, print() calls are recorded.  Callers compare
    the returned exit status with the rank-maximum of the per-target statuses        (C08 fold)
    the printed sequence with one block per target, delimited / bracketed             (C08 blocks)
"""
import ast

from sa.core import AnalysisError, unparse, call_name
from sa.abseval import Unknown, Opaque
from sa.listinterp import Interp


class Tok:
    def __init__(self, name, attrs=None):
        self.name = name
        self.attrs = attrs or {}

    def __repr__(self):
        return self.name

    def __deepcopy__(self, memo):
        return self


def _attr_hook(base, attr, interp):
    if isinstance(base, Tok):
        if attr in base.attrs:
            return (True, base.attrs[attr])
        raise Unknown('no model value for %r.%s' % (base, attr))
    return None


def run(repo, statuses, json_mode, order=None, targets=None, texts=None, parse=None, port=22):
    """statuses: per-target exit status, in submission order.  order: completion order (indices).  -> {'returned', 'prints': [(text, end)], 'submitted': [(host, port)]}"""
    from props._renderer import codes
    mn = repo.func('ssh_audit', 'main')
    n = len(statuses)
    targets = targets or ['host%d' % i for i in range(n)]
    order = list(order) if order is not None else list(range(n))
    aconf = Tok('<aconf>', {'json': json_mode, 'manual': False, 'lookup': '', 'target_list': list(targets), 'threads': 4, 'port': port, 'verbose': False, 'debug': False, 'json_print_indent': False,
                            'host': '', 'target_file': 'targets.txt'})
    env = dict(codes(repo))
    env.update({'sys.platform': 'linux', 'sys.modules': {}, 'sys.argv': ['ssh-audit']})
    futures = []
    prints = []
    submitted = []
    parsed = []

    def hook(call, e, interp):
        t = call_name(call) or unparse(call.func)
        f = call.func
        if t == 'OutputBuffer':
            return (True, Tok('<out>', {'json': False, 'use_colors': True}))
        if t == 'process_commandline':
            return (True, aconf)
        if t == 'Utils.parse_host_and_port':
            v = interp.value(call.args[0], e)
            dp = None
            for k in call.keywords:
                if k.arg == 'default_port':
                    dp = interp.value(k.value, e)
            if len(call.args) > 1:
                dp = interp.value(call.args[1], e)
            parsed.append((v, dp))
            if parse is not None:
                return (True, parse(v, dp))
            return (True, (v, 22))
        if isinstance(f, ast.Attribute) and f.attr == 'submit':
            vals = [interp.value(a, e) for a in call.args[1:]]
            fut = Tok('<future %d>' % len(futures), {'index': len(futures)})
            futures.append(fut)
            submitted.append(tuple(vals[:2]))
            return (True, fut)
        if t.endswith('as_completed'):
            got = interp.value(call.args[0], e)
            keys = list(got) if isinstance(got, (dict, list, tuple, set)) or type(got).__name__ in ('dict_values', 'dict_keys') else None
            if keys is None or any(not isinstance(k, Tok) for k in keys):
                raise Unknown('as_completed over something that is not the collection of submitted futures')
            keys = sorted(keys, key=lambda k: k.attrs['index'])
            return (True, [keys[i] for i in order if i < len(keys)] + [k for i, k in enumerate(keys) if i not in order])
        if isinstance(f, ast.Attribute) and f.attr == 'result' and not call.args:
            base = interp.value(f.value, e)
            if isinstance(base, Tok) and 'index' in base.attrs:
                i = base.attrs['index']
                return (True, (statuses[i], texts[i] if texts is not None else '<report %d>' % i))
        if t == 'print':
            vals = [interp.value(a, e) for a in call.args]
            end = '\n'
            for k in call.keywords:
                if k.arg == 'end':
                    end = interp.value(k.value, e)
            e.setdefault('<prints>', []).append((' '.join(str(v) for v in vals), end))
            return (True, None)
        if t in ('SSH1_KexDB.thread_exit', 'SSH2_KexDB.thread_exit', 'out.v', 'out.d', 'out.write'):
            return (True, None)
        if isinstance(f, ast.Attribute) and f.attr == 'ThreadPoolExecutor':
            return (True, Tok('<executor>'))
        if t == 'max' and len(call.args) >= 2:
            vals = [interp.value(a, e) for a in call.args]
            key = None
            for k in call.keywords:
                if k.arg == 'key':
                    key = k.value
            if key is not None and isinstance(key, ast.Attribute) and key.attr == 'index':
                lst = interp.value(key.value, e)
                return (True, max(vals, key=lst.index))
            if key is None:
                return (True, max(vals))
        return None
    it = Interp(call_hook=hook, attr_hook=_attr_hook, budget=100000, with_targets=True)
    try:
        finals = it.run(mn.body, env)
    except Unknown as ex:
        raise AnalysisError('main() cannot be interpreted for a multi-target run: %s' % ex)
    finals = [f for f in finals if f.get('<outcome>') == 'return' or f.get('<crash>')]
    if len(finals) != 1 or finals[0].get('<forks>'):
        raise AnalysisError('main(): the multi-target run does not evaluate on a single path (forks %s)' % [f.get('<forks>') for f in finals][:2])
    fe = finals[0]
    return {'returned': fe.get('<return>'), 'prints': fe.get('<prints>', []), 'submitted': submitted, 'crash': fe.get('<crash>'), 'parsed': parsed}
