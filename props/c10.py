"""C10 -- wire encoding and decoding are inverses; packets are well framed (structural clauses)."""
import ast
import struct

from sa.core import flow_texts, AnalysisError, unparse, walk_no_nested, stmt_text, call_name, bind_args, attr_chain, func_id
from sa.logic import path_condition
from sa.abseval import ev, Unknown, track_block, Opaque
from sa.consteval import ConstEnv
from props.c01 import ctor_fields, SSH2_SLOTS
from props import _codec

EXPL = ('Decides: (1) the writer and the parser of each message perform the same sequence of codec operations on the same fields (KEXINIT: cookie, ten name-lists, bool, uint32; '
        'SSH-1 public key message: cookie, (uint32, mpint, mpint) x 2, three uint32), by interpreting parse / constructor / write on read tokens; the DoS module\'s KEXINIT builder is a third sibling; '
        '(2) every primitive writer emits the RFC 4251 (SSH-1: protocol 1.5) encoding and every reader decodes it and consumes exactly its bytes, by interpreting the writer / reader with all helpers on boundary families '
        '(all bytes, uint32 patterns, bytes / str strings with multi-byte UTF-8, name-lists, 1511 integers of both signs around +-2^k up to 8192 bits): this is the round trip ON THOSE FAMILIES, not for all values; '
        '(3) both packet builders, interpreted for 54 payload lengths, emit packets whose total is a multiple of 8 with at least 4 (and minimal) padding bytes, consistent length fields and the payload intact, and agree with each other; '
        'the reader\'s size check counts the same components (linear forms over the wire values) and consumes the whole packet; (4) the SSH-1 CRC uses the reflected CRC-32 polynomial with a 256-entry table. '
        'Byte equality of re-encoding whole decoded messages for arbitrary field values is NOT claimed beyond the token-level agreement of (1).')

PAIR = {'write': 'read', 'write_list': 'read_list', 'write_bool': 'read_bool', 'write_int': 'read_int', 'write_mpint1': 'read_mpint1', 'write_byte': 'read_byte', 'write_string': 'read_string', 'write_mpint2': 'read_mpint2'}


def write_seq(func, buf='wbuf'):
    out = []
    for st in func.body:
        if isinstance(st, ast.Expr) and isinstance(st.value, ast.Call) and isinstance(st.value.func, ast.Attribute) and unparse(st.value.func.value) == buf:
            c = st.value
            out.append((c.func.attr, c.args[0] if c.args else None, st))
    return out


def run(repo, rep, tier):
    rep.explanation = EXPL
    # ---- rule 1: message sibling agreement -----------------------------------------------------------------------------
    kw = repo.func('ssh2_kex', 'SSH2_Kex.write')
    kp = repo.func('ssh2_kex', 'SSH2_Kex.parse')
    kcls = repo.cls('ssh2_kex', 'SSH2_Kex')
    pcls = repo.cls('ssh2_kexparty', 'SSH2_KexParty')
    rep.saw(kw), rep.saw(kp)
    # parse() is interpreted on a stream of read tokens and write() on the object parse() built (props/_messages.py): the writer must emit, position by
    # position, the token the parser read there, with the paired codec -- whatever the two methods look like (accessors or private fields, loops, slices)
    from props import _messages
    obj, reads, holder = _messages.parse_model(repo, 'ssh2_kex', 'SSH2_Kex', [('ssh2_kexparty', 'SSH2_KexParty')])
    writes = _messages.write_model(repo, 'ssh2_kex', 'SSH2_Kex', obj, holder)
    rep.check('siblings', 'KEXINIT: writer and parser perform 13 codec operations each', len(writes) == 13 and len(reads) == 13, kw, 'KEXINIT writer has %d operations, parser %d' % (len(writes), len(reads)))
    table = []
    for i, ((wop, wval, wnode), (rop, rsize, rtok)) in enumerate(zip(writes, reads)):
        rep.evals()
        table.append({'i': i, 'write': '%s(%r)' % (wop, wval), 'read': '%s -> %r' % (rop, rtok)})
        rep.check('siblings', 'KEXINIT op %d: %s pairs with %s' % (i, wop, rop), _messages.PAIR.get(wop) == rop, wnode, 'KEXINIT field %d is written with %s but read with %s' % (i, wop, rop), stmt='KEXINIT position %d codec' % i)
        rep.check('siblings', 'KEXINIT op %d: the writer emits what the parser stored from that position' % i, wval == rtok, wnode, 'KEXINIT position %d: writer emits %r, the parser read %r there' % (i, wval, rtok), stmt='KEXINIT position %d field' % i)
    rep.samples.append({'rule': 'siblings', 'message': 'KEXINIT', 'ops': table})
    rep.check('siblings', 'KEXINIT cookie is 16 bytes', bool(reads) and reads[0][0] == 'read' and reads[0][1] == 16, kp, 'cookie read size changed')
    order = ['cookie'] + SSH2_SLOTS + ['follows', 'unused']
    got = []
    for a in order:
        v = _messages.accessor(holder, obj, a)
        got.append([k for k, (rop, rsize, rtok) in enumerate(reads) if rtok == v])
    rep.check('siblings', 'KEXINIT field order is RFC 4253 7.1', got == [[k] for k in range(13)], kp, 'accessors in RFC order yield packet positions %s' % got)
    # third sibling: DHEat.generate_kex (body without cookie)
    gk = repo.func('dheat', 'DHEat.generate_kex')
    gs = write_seq(gk)
    ops = [op for op, a, st in gs]
    rep.check('siblings', 'DoS KEXINIT builder writes ten name-lists, a bool and a uint32', ops == ['write_list'] * 10 + ['write_bool', 'write_int'], gk, 'generate_kex operations: %s' % ops)
    srcs = []
    for op, a, st in gs[1:10]:
        t = unparse(a)
        for slot in SSH2_SLOTS:
            if 'self.kex.%s[0]' % slot in t:
                srcs.append(slot)
                break
        else:
            srcs.append('?')
    rep.check('siblings', 'DoS KEXINIT builder fills positions 2-10 from the matching fields', srcs == SSH2_SLOTS[1:], gk, 'generate_kex field order: %s' % srcs)
    # SSH-1
    pw = repo.func('ssh1_publickeymessage', 'SSH1_PublicKeyMessage.write')
    pp = repo.func('ssh1_publickeymessage', 'SSH1_PublicKeyMessage.parse')
    rep.saw(pw), rep.saw(pp)
    obj1, reads1, holder1 = _messages.parse_model(repo, 'ssh1_publickeymessage', 'SSH1_PublicKeyMessage')
    writes1 = _messages.write_model(repo, 'ssh1_publickeymessage', 'SSH1_PublicKeyMessage', obj1, holder1)
    wops = [op for op, v, n in writes1]
    rops = [op for op, sz, t in reads1]
    want_w = ['write', 'write_int', 'write_mpint1', 'write_mpint1', 'write_int', 'write_mpint1', 'write_mpint1', 'write_int', 'write_int', 'write_int']
    rep.check('siblings', 'SSH-1 key message writer sequence', wops == want_w, pw, 'SSH-1 writer ops: %s' % wops)
    rep.check('siblings', 'SSH-1 key message parser mirrors the writer', rops == [_messages.PAIR[o] for o in want_w], pp, 'SSH-1 parser ops: %s' % rops)
    rep.check('siblings', 'SSH-1 writer emits, position by position, what the parser stored', [v for op, v, n in writes1] == [t for op, sz, t in reads1], pw,
              'SSH-1 writer emits %s, the parser read %s' % ([v for op, v, n in writes1], [t for op, sz, t in reads1]))
    want_f = ['cookie', 'server_key_bits', 'server_key_public_exponent', 'server_key_public_modulus', 'host_key_bits', 'host_key_public_exponent', 'host_key_public_modulus', 'protocol_flags', 'supported_ciphers_mask', 'supported_authentications_mask']
    gotf = [_messages.accessor(holder1, obj1, a) for a in want_f]
    rep.check('siblings', 'SSH-1 accessors name the fields in packet order', gotf == [t for op, sz, t in reads1], pp, 'SSH-1 accessors %s yield %s, the packet is %s' % (want_f, gotf, [t for op, sz, t in reads1]))
    rep.check('siblings', 'SSH-1 cookie is 8 bytes', bool(reads1) and reads1[0][1] == 8, pp, 'SSH-1 cookie size changed')

    # ---- rules 2 and 3: primitive writer / reader pairs, by interpretation (props/_codec.py) ------------------------------------------------
    # Every writer is interpreted on a family of values and must put the RFC 4251 (SSH-1: protocol 1.5) encoding on the stream; every reader is
    # interpreted on that encoding and must return the value and consume exactly those bytes.  Both directions are stated against the documented
    # encoding, so the report names the side that is wrong; together they are the round trip on the family.
    def F(mod, q):
        f = repo.func(mod, q)
        rep.saw(f)
        return f
    cm = _codec.Model(repo)
    ints = _codec.int_family()
    PAIRS = [
        # writer, reader, values, documented encoding, decoded value, rule
        ('write_byte', 'read_byte', list(range(256)), lambda v: bytes([v]), lambda v: v, 'primitives'),
        ('write_bool', 'read_bool', [True, False], lambda v: b'\x01' if v else b'\x00', lambda v: v, 'primitives'),
        ('write_int', 'read_int', _codec.UINT32, lambda v: struct.pack('>I', v), lambda v: v, 'primitives'),
        ('write_string', 'read_string', _codec.STRINGS, _codec.expected_string, lambda v: v.encode('utf-8') if isinstance(v, str) else v, 'primitives'),
        ('write_list', 'read_list', _codec.LISTS, _codec.expected_list, lambda v: v, 'primitives'),
        ('write_mpint1', 'read_mpint1', [n for n in ints if n >= 0], _codec.expected_mpint1, lambda v: v, 'words'),
        ('write_mpint2', 'read_mpint2', ints, _codec.expected_mpint2, lambda v: v, 'words'),
    ]
    for wname, rname, values, enc, dec, rule in PAIRS:
        wf, rf = F('writebuf', 'WriteBuf.' + wname), F('readbuf', 'ReadBuf.' + rname)
        wbad, rbad = [], []
        for v in values:
            want = enc(v)
            got = cm.write(wname, v)
            rep.evals()
            if got != want:
                wbad.append((v, got, want))
            back = cm.read(rname, want)
            rep.evals()
            if back != (dec(v), len(want)):
                rbad.append((v, back, want))

        def show(rows, what):
            out = []
            for v, got, want in rows[:3]:
                g = ('%s...' % got[:12].hex() if len(got) > 12 else got.hex()) if isinstance(got, bytes) else (got[1] if isinstance(got, tuple) and got[0] == 'error' else (_codec.short(got[0]) + ' after %d bytes' % got[1] if isinstance(got, tuple) else repr(got)))
                w = '%s...' % want[:12].hex() if len(want) > 12 else want.hex()
                out.append('%s: %s %s, the encoding is %s (%d bytes)' % (_codec.short(v), what, g, w, len(want)))
            return '; '.join(out) + (' (and %d more)' % (len(rows) - 3) if len(rows) > 3 else '')
        rep.check(rule, 'WriteBuf.%s emits the documented encoding for %d values' % (wname, len(values)), not wbad, wf,
                  'WriteBuf.%s does not emit the documented encoding -- %s' % (wname, show(wbad, 'writes')), func='writebuf:WriteBuf.%s' % wname, stmt='%s encoding' % wname,
                  sample={'rule': rule, 'writer': wname, 'values': len(values)})
        rep.check(rule, 'ReadBuf.%s decodes the documented encoding of %d values and consumes exactly its bytes' % (rname, len(values)), not rbad, rf,
                  'ReadBuf.%s does not decode the documented encoding -- %s' % (rname, show(rbad, 'reads')), func='readbuf:ReadBuf.%s' % rname, stmt='%s decoding' % rname,
                  sample={'rule': rule, 'reader': rname, 'values': len(values)})
    # ---- rule 4: framing ---------------------------------------------------------------------------------------------------------
    sp = F('ssh_socket', 'SSH_Socket.send_packet')
    gp = F('dheat', 'DHEat.get_padding')
    ce = ConstEnv(repo)
    sinit = repo.func('ssh_socket', 'SSH_Socket.__init__')
    bsz = [n for n in walk_no_nested(sinit) if isinstance(n, ast.Assign) and unparse(n.targets[0]) == 'self.__block_size']
    block = bsz[0].value.value if bsz and isinstance(bsz[0].value, ast.Constant) else None
    rep.check('framing', 'reader block size is 8', block == 8, bsz[0] if bsz else sinit, 'reader block size is %s' % block)

    # writer side, by interpretation (props/_codec.send_packet / get_padding): for every payload length the bytes handed to send() are parsed back by the
    # checker's own RFC 4253 section 6 decoder
    lengths = list(range(0, 48)) + [255, 256, 1000, 4095, 4096, 35000]
    r_a, r_b = [], []
    for L in lengths:
        payload = bytes((7 * i + 3) % 256 for i in range(L))
        data = _codec.send_packet(repo, payload)
        rep.evals()
        pad = None
        if isinstance(data, bytes) and len(data) >= 5:
            plen, pad = struct.unpack('>IB', data[:5])
            ok = len(data) % 8 == 0 and plen == len(data) - 4 and 4 <= pad < 12 and len(data) == 5 + L + pad and data[5:5 + L] == payload
            why = 'total %d bytes, packet_length field %d, padding_length field %d' % (len(data), plen, pad)
        else:
            ok, why = False, (data[1] if isinstance(data, tuple) else 'only %d bytes sent' % len(data))
        r_a.append((L, pad))
        rep.check('framing', 'SSH_Socket.send_packet: payload length %d -> total multiple of 8, padding >= 4 and minimal, consistent length fields, payload intact' % L, ok, sp,
                  'SSH_Socket.send_packet: a payload of %d bytes is framed wrongly (%s)' % (L, why), stmt='send_packet framing')
        gpv = _codec.get_padding(repo, payload)
        rep.evals()
        ok = isinstance(gpv, tuple) and len(gpv) == 2 and isinstance(gpv[0], int) and isinstance(gpv[1], bytes) and 4 <= gpv[0] < 12 and (5 + L + gpv[0]) % 8 == 0 and len(gpv[1]) == gpv[0]
        r_b.append((L, gpv[0] if isinstance(gpv, tuple) and len(gpv) == 2 and gpv[0] != 'error' else None))
        rep.check('framing', 'DHEat.get_padding: payload length %d -> padding >= 4, minimal, total multiple of 8, as many bytes as announced' % L, ok, gp,
                  'DHEat.get_padding: a payload of %d bytes gets %s' % (L, ('padding length %r with %d padding bytes (total %d)' % (gpv[0], len(gpv[1]), 5 + L + gpv[0])) if ok is False and isinstance(gpv, tuple) and len(gpv) == 2 and isinstance(gpv[0], int) and isinstance(gpv[1], bytes) else repr(gpv)[:80]), stmt='get_padding framing')
    rep.check('framing', 'both packet builders compute the same padding for every length', r_a == r_b, gp, 'padding differs between send_packet and get_padding: %s' % [(x, y) for x, y in zip(r_a, r_b) if x != y][:3], sample={'rule': 'framing', 'padding_by_length': r_a[:8]})
    # what the packet reader reads next is what the peer sent next: SSH_Socket.recv() interpreted (props/_codec.recv_model) on receive buffers with unread
    # bytes -- small and large read positions, empty and non-empty tails -- must only APPEND the received segment behind the unread bytes
    badr = []
    ncr = 0
    for buffered_len, pos_ in ((0, 0), (6, 4), (6, 6), (2048, 2040), (40000, 39990), (70000, 69999), (140000, 131072)):
        buffered_ = bytes((i * 7 + 1) % 251 for i in range(buffered_len))
        for incoming_ in (b'xyz', bytes(range(200))):
            r_ = _codec.recv_model(repo, buffered_, pos_, incoming_)
            rep.evals()
            ncr += 1
            want_ = buffered_[pos_:] + incoming_
            if not isinstance(r_[0], bytes) or r_[0] != want_ or r_[1] != (len(incoming_), None) or r_[2]:
                badr.append('buffer of %d bytes read up to %d, segment of %d bytes arrives: %s' % (buffered_len, pos_, len(incoming_),
                            r_[1] if not isinstance(r_[0], bytes) else ('the reader would next see %d byte(s) (%s...), the peer sent %d (%s...)%s' % (len(r_[0]), r_[0][:6].hex(), len(want_), want_[:6].hex(), '; ' + r_[2] if r_[2] else ''))))
    rep.check('framing', 'SSH_Socket.recv appends the received segment behind the unread bytes and keeps the read position (%d buffer states)' % ncr, not badr, F('ssh_socket', 'SSH_Socket.recv'),
              'SSH_Socket.recv loses or reorders received bytes -- %s: the packet reader continues in the middle of the stream and no longer reads back the packets that were sent' % (badr[0] if badr else ''), stmt='recv appends')
    # reader: per protocol version the statements of read_packet are linearised and locals substituted forward (props/_framing.reader_model); what is tested
    # against the block size and what is read as payload are linear forms over the values read from the wire -- whatever temporaries or helpers compute them
    from props import _framing as _fr
    rp, rmodel = _fr.reader_model(repo)
    for proto, want_size, want_payload, what in ((2, ({'packet_length': 1}, 4), ({'packet_length': 1, 'padding_length': -1}, -1), 'length field + padding byte + payload + padding'),
                                                 (1, ({'packet_length': 1, 'padding_length': 1}, 0), ({'packet_length': 1}, -4), 'padding + payload (with its CRC)')):
        m = rmodel[proto]
        sizes = [x[0] for x in m['block_tests']]
        if not sizes or not m['payload_reads']:
            # nothing of the reader is visible in read_packet itself (e.g. it dispatches through a function-valued variable): cannot decide, not a violation
            raise AnalysisError('reader model: no block-size test / payload read found on the SSH-%d path of read_packet (the reader is not expressed in read_packet or in helpers that can be substituted into it)' % proto)
        rep.check('framing', 'SSH-%d reader tests %s against its block size' % (proto, what), sizes == [want_size], m['block_tests'][0][2] if m['block_tests'] else rp,
                  'SSH-%d reader: the size tested against the block size is %s, expected %s' % (proto, sizes, want_size), stmt='SSH-%d block size test' % proto, sample={'rule': 'framing', 'proto': proto, 'tested': repr(sizes)})
        for lf, txt, node in m['block_tests']:
            rep.check('framing', 'reader rejects sizes that are not a multiple of its block size (SSH-%d)' % proto, txt.replace(' ', '').endswith('%self.__block_size!=0'), node, 'block size test changed: %s' % txt)
        pr = [l for nm, l in m['payload_reads'] if l == want_payload]
        rep.check('framing', 'SSH-%d reader reads a payload of %s bytes' % (proto, 'packet_length - padding_length - 1' if proto == 2 else 'packet_length - 4'), len(pr) == 1, rp,
                  'SSH-%d reader: payload read sizes are %s' % (proto, [l for nm, l in m['payload_reads']]), stmt='SSH-%d payload size' % proto)
    # CRC
    crc = repo.func('ssh1_crc32', 'SSH1_CRC32.__init__')
    rep.saw(crc)
    t = unparse(crc)
    consts = [n.value for n in ast.walk(crc) if isinstance(n, ast.Constant) and isinstance(n.value, int)]
    rep.check('crc', 'CRC-32 table: reflected polynomial 0xedb88320, 256 entries, 8 shifts per entry', 0xedb88320 in consts and consts.count(256) >= 2 and 8 in consts and 'crc >> 1' in t, crc, 'CRC table construction changed (constants %s)' % sorted(set(consts))[:8])
    cc = repo.func('ssh1_crc32', 'SSH1_CRC32.calc')
    t = unparse(cc)
    rep.check('crc', 'CRC update: crc = (crc >> 8) ^ table[(byte ^ crc) & 0xff]', 'n ^ crc & 255' in t and 'crc >> 8 ^ self._table[n]' in t, cc, 'CRC update step changed')
    ct = rmodel[1]['crc_tests']
    ok = len(ct) == 1 and ct[0][1] == 'NotEq' and 'SSH1.crc32(padding + payload)' in (ct[0][0], ct[0][2]) and any(x.startswith('WIRE_read_int_') for x in (ct[0][0], ct[0][2])) and not rmodel[2]['crc_tests']
    rep.check('crc', 'SSH-1 reader verifies the CRC over padding + payload', ok, ct[0][3] if ct else rp, 'SSH-1 CRC verification changed: %s' % [(a, o, b) for a, o, b, n in ct])

    # ---- reader side of "packets are well framed": every packet the tool emits is read back unchanged only if read_packet consumes the whole
    # packet before returning (shared symbolic byte budget, props/_framing.py)
    from props import _framing
    _rp, _fr = _framing.analyse(repo, rep)
    _framing.report(rep, _fr, 'read-framing')
