"""C10 -- wire encoding and decoding are inverses; packets are well framed (structural clauses)."""
import ast
import struct

from sa.core import flow_texts, AnalysisError, unparse, walk_no_nested, stmt_text, call_name, bind_args, attr_chain, func_id
from sa.logic import path_condition
from sa.abseval import ev, Unknown, track_block, Opaque
from sa.consteval import ConstEnv
from props.c01 import ctor_fields, SSH2_SLOTS

EXPL = ('Decides the clauses visible in code shape: (1) the writer and the parser of each message perform the same sequence of codec operations on the same fields (KEXINIT: cookie, ten name-lists, bool, uint32; '
        'SSH-1 public key message: cookie, (uint32, mpint, mpint) x 2, three uint32); the DoS module\'s KEXINIT builder is a third sibling; (2) each primitive writer/reader pair uses the same struct format and length arithmetic; '
        '(3) the multi-word integer reader composes words with an unsigned format and applies the sign once; (4) both packet builders compute padding by the same expression, which for every payload-length residue modulo the block size yields a '
        'total length divisible by 8 with at least 4 padding bytes; the header constant equals the packed header size, the modulus equals the reader\'s block size and the reader\'s size check counts the same components; the SSH-1 CRC uses the reflected '
        'CRC-32 polynomial with a 256-entry table. Value-level round trips (all integers, all name-lists, byte equality of re-encoding) are NOT claimed.')

PAIR = {'write': 'read', 'write_list': 'read_list', 'write_bool': 'read_bool', 'write_int': 'read_int', 'write_mpint1': 'read_mpint1', 'write_byte': 'read_byte', 'write_string': 'read_string', 'write_mpint2': 'read_mpint2'}


def write_seq(func, buf='wbuf'):
    out = []
    for st in func.body:
        if isinstance(st, ast.Expr) and isinstance(st.value, ast.Call) and isinstance(st.value.func, ast.Attribute) and unparse(st.value.func.value) == buf:
            c = st.value
            out.append((c.func.attr, c.args[0] if c.args else None, st))
    return out


def read_seq(func, buf='buf'):
    out = []
    for st in func.body:
        if isinstance(st, ast.Assign) and isinstance(st.value, ast.Call) and isinstance(st.value.func, ast.Attribute) and unparse(st.value.func.value) == buf and isinstance(st.targets[0], ast.Name):
            c = st.value
            out.append((c.func.attr, st.targets[0].id, c.args[0] if c.args else None, st))
    return out


def _read_size(func, expr):
    """k when expr is self.read(k) with constant k, directly or through a local assigned once from it."""
    if isinstance(expr, ast.Name):
        defs = [d for d in walk_no_nested(func) if isinstance(d, (ast.Assign, ast.AnnAssign)) and any(isinstance(t, ast.Name) and t.id == expr.id for t in (d.targets if isinstance(d, ast.Assign) else [d.target]))]
        if len(defs) != 1 or defs[0].value is None:
            return None
        expr = defs[0].value
    if isinstance(expr, ast.Call) and unparse(expr.func) == 'self.read' and expr.args and isinstance(expr.args[0], ast.Constant) and isinstance(expr.args[0].value, int):
        return expr.args[0].value
    return None


def fmt_of(func, which='unpack'):
    """Constant struct formats used in a function: [(format, call node)]"""
    out = []
    for n in walk_no_nested(func):
        if isinstance(n, ast.Call) and unparse(n.func) in ('struct.unpack', 'struct.pack') and n.args and isinstance(n.args[0], ast.Constant):
            out.append((n.args[0].value, n))
        # int.from_bytes(self.read(k), 'big') / x.to_bytes(k, 'big'): the same codec as the unsigned big-endian struct format of k bytes
        elif isinstance(n, ast.Call) and unparse(n.func) == 'int.from_bytes' and len(n.args) >= 2 and isinstance(n.args[1], ast.Constant) and n.args[1].value == 'big' \
                and not any(k.arg == 'signed' and not (isinstance(k.value, ast.Constant) and k.value.value is False) for k in n.keywords) \
                and _read_size(func, n.args[0]) is not None:
            k = _read_size(func, n.args[0])
            out.append(({1: 'B', 2: '>H', 4: '>I', 8: '>Q'}.get(k, 'from_bytes(%s)' % k), n))
        elif isinstance(n, ast.Call) and isinstance(n.func, ast.Attribute) and n.func.attr == 'to_bytes' and len(n.args) >= 2 and isinstance(n.args[0], ast.Constant) and isinstance(n.args[1], ast.Constant) and n.args[1].value == 'big' \
                and not any(k.arg == 'signed' and not (isinstance(k.value, ast.Constant) and k.value.value is False) for k in n.keywords):
            out.append(({1: 'B', 2: '>H', 4: '>I', 8: '>Q'}.get(n.args[0].value, 'to_bytes(%s)' % n.args[0].value), n))
    return out


def run(repo, rep, tier):
    rep.explanation = EXPL
    # ---- rule 1: message sibling agreement -----------------------------------------------------------------------------
    kw = repo.func('ssh2_kex', 'SSH2_Kex.write')
    kp = repo.func('ssh2_kex', 'SSH2_Kex.parse')
    kcls = repo.cls('ssh2_kex', 'SSH2_Kex')
    pcls = repo.cls('ssh2_kexparty', 'SSH2_KexParty')
    rep.saw(kw), rep.saw(kp)
    # parse() is interpreted on a stream of read tokens and write() on the object parse() built (props/_messages.py): the writer must emit, position by
    # position, the token the parser read there, with the paired codec -- whatever the two methods look like (accessors or private fields, loops, slices)
    from props import _messages
    obj, reads, holder = _messages.parse_model(repo, 'ssh2_kex', 'SSH2_Kex', [('ssh2_kexparty', 'SSH2_KexParty')])
    writes = _messages.write_model(repo, 'ssh2_kex', 'SSH2_Kex', obj, holder)
    rep.check('siblings', 'KEXINIT: writer and parser perform 13 codec operations each', len(writes) == 13 and len(reads) == 13, kw, 'KEXINIT writer has %d operations, parser %d' % (len(writes), len(reads)))
    table = []
    for i, ((wop, wval, wnode), (rop, rsize, rtok)) in enumerate(zip(writes, reads)):
        rep.evals()
        table.append({'i': i, 'write': '%s(%r)' % (wop, wval), 'read': '%s -> %r' % (rop, rtok)})
        rep.check('siblings', 'KEXINIT op %d: %s pairs with %s' % (i, wop, rop), _messages.PAIR.get(wop) == rop, wnode, 'KEXINIT field %d is written with %s but read with %s' % (i, wop, rop), stmt='KEXINIT position %d codec' % i)
        rep.check('siblings', 'KEXINIT op %d: the writer emits what the parser stored from that position' % i, wval == rtok, wnode, 'KEXINIT position %d: writer emits %r, the parser read %r there' % (i, wval, rtok), stmt='KEXINIT position %d field' % i)
    rep.samples.append({'rule': 'siblings', 'message': 'KEXINIT', 'ops': table})
    rep.check('siblings', 'KEXINIT cookie is 16 bytes', bool(reads) and reads[0][0] == 'read' and reads[0][1] == 16, kp, 'cookie read size changed')
    order = ['cookie'] + SSH2_SLOTS + ['follows', 'unused']
    got = []
    for a in order:
        v = _messages.accessor(holder, obj, a)
        got.append([k for k, (rop, rsize, rtok) in enumerate(reads) if rtok == v])
    rep.check('siblings', 'KEXINIT field order is RFC 4253 7.1', got == [[k] for k in range(13)], kp, 'accessors in RFC order yield packet positions %s' % got)
    # third sibling: DHEat.generate_kex (body without cookie)
    gk = repo.func('dheat', 'DHEat.generate_kex')
    gs = write_seq(gk)
    ops = [op for op, a, st in gs]
    rep.check('siblings', 'DoS KEXINIT builder writes ten name-lists, a bool and a uint32', ops == ['write_list'] * 10 + ['write_bool', 'write_int'], gk, 'generate_kex operations: %s' % ops)
    srcs = []
    for op, a, st in gs[1:10]:
        t = unparse(a)
        for slot in SSH2_SLOTS:
            if 'self.kex.%s[0]' % slot in t:
                srcs.append(slot)
                break
        else:
            srcs.append('?')
    rep.check('siblings', 'DoS KEXINIT builder fills positions 2-10 from the matching fields', srcs == SSH2_SLOTS[1:], gk, 'generate_kex field order: %s' % srcs)
    # SSH-1
    pw = repo.func('ssh1_publickeymessage', 'SSH1_PublicKeyMessage.write')
    pp = repo.func('ssh1_publickeymessage', 'SSH1_PublicKeyMessage.parse')
    rep.saw(pw), rep.saw(pp)
    obj1, reads1, holder1 = _messages.parse_model(repo, 'ssh1_publickeymessage', 'SSH1_PublicKeyMessage')
    writes1 = _messages.write_model(repo, 'ssh1_publickeymessage', 'SSH1_PublicKeyMessage', obj1, holder1)
    wops = [op for op, v, n in writes1]
    rops = [op for op, sz, t in reads1]
    want_w = ['write', 'write_int', 'write_mpint1', 'write_mpint1', 'write_int', 'write_mpint1', 'write_mpint1', 'write_int', 'write_int', 'write_int']
    rep.check('siblings', 'SSH-1 key message writer sequence', wops == want_w, pw, 'SSH-1 writer ops: %s' % wops)
    rep.check('siblings', 'SSH-1 key message parser mirrors the writer', rops == [_messages.PAIR[o] for o in want_w], pp, 'SSH-1 parser ops: %s' % rops)
    rep.check('siblings', 'SSH-1 writer emits, position by position, what the parser stored', [v for op, v, n in writes1] == [t for op, sz, t in reads1], pw,
              'SSH-1 writer emits %s, the parser read %s' % ([v for op, v, n in writes1], [t for op, sz, t in reads1]))
    want_f = ['cookie', 'server_key_bits', 'server_key_public_exponent', 'server_key_public_modulus', 'host_key_bits', 'host_key_public_exponent', 'host_key_public_modulus', 'protocol_flags', 'supported_ciphers_mask', 'supported_authentications_mask']
    gotf = [_messages.accessor(holder1, obj1, a) for a in want_f]
    rep.check('siblings', 'SSH-1 accessors name the fields in packet order', gotf == [t for op, sz, t in reads1], pp, 'SSH-1 accessors %s yield %s, the packet is %s' % (want_f, gotf, [t for op, sz, t in reads1]))
    rep.check('siblings', 'SSH-1 cookie is 8 bytes', bool(reads1) and reads1[0][1] == 8, pp, 'SSH-1 cookie size changed')

    # ---- rule 2: primitive pairs -------------------------------------------------------------------------------------------
    def F(mod, q):
        f = repo.func(mod, q)
        rep.saw(f)
        return f
    for wq, rq, fmt in (('WriteBuf.write_byte', 'ReadBuf.read_byte', 'B'), ('WriteBuf.write_int', 'ReadBuf.read_int', '>I')):
        wfm = [x for x, n in fmt_of(F('writebuf', wq))]
        rfm = [x for x, n in fmt_of(F('readbuf', rq))]
        rep.check('primitives', '%s / %s use format %r' % (wq, rq, fmt), wfm == [fmt] and rfm == [fmt], F('readbuf', rq), '%s packs %s, %s unpacks %s' % (wq, wfm, rq, rfm), sample={'rule': 'primitives', 'pair': [wq, rq], 'format': fmt})
        rd = [n for n in walk_no_nested(F('readbuf', rq)) if isinstance(n, ast.Call) and unparse(n.func) == 'self.read']
        rep.check('primitives', '%s reads calcsize(%r) = %d bytes' % (rq, fmt, struct.calcsize(fmt)), len(rd) == 1 and unparse(rd[0].args[0]) == str(struct.calcsize(fmt)), F('readbuf', rq), '%s reads %s bytes' % (rq, unparse(rd[0].args[0]) if rd else '?'))
    # write_string: the length prefix counts the very bytes that follow.  Typestate on the CFG: the operand of len() in the length prefix and the value
    # written after it must be the same name, and on every path to the prefix that name holds bytes (annotation says bytes only, or a dominating
    # `if not isinstance(v, bytes): v = <bytes-producing expression>`); a str reaching len() is counted in code points but written as UTF-8.
    wsf = F('writebuf', 'WriteBuf.write_string')
    from sa.cfg import CFG as _CFG, describe_path as _dp
    wcfg = _CFG(wsf, exc_edges=False)
    pref = [n for n in walk_no_nested(wsf) if isinstance(n, ast.Call) and unparse(n.func) == 'self.write_int' and n.args and isinstance(n.args[0], ast.Call) and unparse(n.args[0].func) == 'len']
    wr = [n for n in walk_no_nested(wsf) if isinstance(n, ast.Call) and unparse(n.func) == 'self.write' and n.args]
    ok = len(pref) == 1 and len(wr) == 1 and isinstance(pref[0].args[0].args[0], ast.Name) and unparse(wr[0].args[0]) == unparse(pref[0].args[0].args[0]) and pref[0].lineno < wr[0].lineno
    rep.check('primitives', 'write_string = uint32 length of v, then v itself', ok, wsf, 'write_string no longer writes len(v) followed by v')
    if ok:
        vname = pref[0].args[0].args[0].id
        ann = next((unparse(a.annotation) for a in wsf.args.args if a.arg == vname and a.annotation is not None), None)
        may_be_str = ann is None or 'str' in ann or 'Any' in ann

        def makes_bytes(e):
            if isinstance(e, ast.Call):
                fn = unparse(e.func)
                return fn in ('bytes', 'bytearray') or (isinstance(e.func, ast.Attribute) and e.func.attr == 'encode') or fn.endswith('to_bytes')
            if isinstance(e, ast.IfExp):
                # x if isinstance(x, bytes) else <bytes-producing expression>   (and the mirrored form)
                t = e.test
                neg = isinstance(t, ast.UnaryOp) and isinstance(t.op, ast.Not)
                c = t.operand if neg else t
                if isinstance(c, ast.Call) and unparse(c.func) == 'isinstance' and len(c.args) == 2 and unparse(c.args[1]) == 'bytes':
                    keep, conv = (e.orelse, e.body) if neg else (e.body, e.orelse)
                    return unparse(keep) == unparse(c.args[0]) and makes_bytes(conv)
            return isinstance(e, ast.Constant) and isinstance(e.value, bytes)

        def converts(st):
            # `v = <bytes>` under `not isinstance(v, bytes)` (or unconditionally)
            return isinstance(st, ast.Assign) and len(st.targets) == 1 and unparse(st.targets[0]) == vname and makes_bytes(st.value)

        def narrows(node):
            # the branch node taken when isinstance(v, bytes) is known true
            st = node.stmt
            if node.kind != 'branch' or not isinstance(st, ast.If):
                return False
            t = st.test
            pos = isinstance(t, ast.Call) and unparse(t.func) == 'isinstance' and len(t.args) == 2 and unparse(t.args[0]) == vname and unparse(t.args[1]) == 'bytes'
            neg = isinstance(t, ast.UnaryOp) and isinstance(t.op, ast.Not) and isinstance(t.operand, ast.Call) and unparse(t.operand.func) == 'isinstance' and len(t.operand.args) == 2 \
                and unparse(t.operand.args[0]) == vname and unparse(t.operand.args[1]) == 'bytes'
            return (pos and node.label == 'T') or (neg and node.label == 'F')
        if may_be_str:
            gates = [n for n in wcfg.nodes if (n.stmt is not None and n.kind == 'stmt' and converts(n.stmt)) or narrows(n)]
            targets = wcfg.stmts_matching(lambda st: any(x is pref[0] for x in ast.walk(st)))
            pth = wcfg.find_path([wcfg.entry], targets, avoid=gates)
            rep.check('primitives', 'the length prefix of write_string is taken on bytes on every path (a str is converted first)', pth is None, pref[0],
                      'write_string takes len(%s) while %s may still be a str: the prefix counts code points but the value is written as UTF-8, so a string with non-ASCII characters is followed by more bytes than announced and the rest of the message is misparsed' % (vname, vname),
                      witness=_dp(pth) if pth else None, stmt='write_string length prefix on bytes')
    rsq = F('readbuf', 'ReadBuf.read_string')
    body = flow_texts(rsq)
    rep.check('primitives', 'read_string = uint32 length + that many bytes', body == ['return self.read(self.read_int())'], rsq, 'read_string body: %s' % body)
    t = unparse(F('writebuf', 'WriteBuf.write_list'))
    rep.check('primitives', "write_list joins with ','", "self.write_string(','.join(v))" in t, F('writebuf', 'WriteBuf.write_list'), 'write_list changed')
    rl = F('readbuf', 'ReadBuf.read_list')
    body = flow_texts(rl)
    rep.check('primitives', "read_list = uint32 length + bytes, split on ','", body in (["return self.read(self.read_int()).decode('utf-8', 'replace').split(',')"], ["return self.read_string().decode('utf-8', 'replace').split(',')"]), rl, 'read_list body: %s' % body)
    t = unparse(F('writebuf', 'WriteBuf.write_bool'))
    rep.check('primitives', 'write_bool writes byte 1/0', 'self.write_byte(1 if v else 0)' in t, F('writebuf', 'WriteBuf.write_bool'), 'write_bool changed')
    t = unparse(F('readbuf', 'ReadBuf.read_bool'))
    rep.check('primitives', 'read_bool is byte != 0', 'return self.read_byte() != 0' in t, F('readbuf', 'ReadBuf.read_bool'), 'read_bool changed')
    w1 = F('writebuf', 'WriteBuf.write_mpint1')
    r1 = F('readbuf', 'ReadBuf.read_mpint1')
    wfm = [x for x, n in fmt_of(w1)]
    rfm = [x for x, n in fmt_of(r1)]
    rep.check('primitives', "mpint1: 16-bit big-endian bit count on both sides", wfm == ['>H'] and rfm == ['>H'], r1, 'mpint1 formats: %s / %s' % (wfm, rfm))
    t = unparse(r1)
    rep.check('primitives', 'read_mpint1 reads (bits + 7) // 8 bytes', 'n = (bits + 7) // 8' in t and 'self.read(n)' in t and 'self.read(2)' in t, r1, 'read_mpint1 length arithmetic changed')
    t = unparse(w1)
    rep.check('primitives', 'write_mpint1 writes the bit length of n and its unsigned bytes', 'bits = self._bitlength(n)' in t and 'self._create_mpint(n, False, bits)' in t, w1, 'write_mpint1 changed')
    t = ' ; '.join(flow_texts(F('writebuf', 'WriteBuf.write_mpint2')))
    rep.check('primitives', 'write_mpint2 = string of the signed big-endian bytes', 'self.write_string(self._create_mpint(n))' in t, F('writebuf', 'WriteBuf.write_mpint2'), 'write_mpint2 changed')
    t = unparse(F('readbuf', 'ReadBuf.read_mpint2'))
    rep.check('primitives', 'read_mpint2 starts from read_string', 'self.read_string()' in t, F('readbuf', 'ReadBuf.read_mpint2'), 'read_mpint2 changed')

    # ---- rule 3: word composition -----------------------------------------------------------------------------------------------
    rb = repo.cls('readbuf', 'ReadBuf')
    accum = []
    for f in [s for s in rb.body if isinstance(s, ast.FunctionDef)]:
        for n in walk_no_nested(f):
            if isinstance(n, ast.Assign) and isinstance(n.value, ast.BinOp) and isinstance(n.value.op, ast.BitOr) and isinstance(n.value.left, ast.BinOp) and isinstance(n.value.left.op, ast.LShift):
                for c in ast.walk(n.value.right):
                    if isinstance(c, ast.Call) and unparse(c.func) == 'struct.unpack':
                        accum.append((f, n, c))
    for f, n, c in accum:
        fa = c.args[0]
        if isinstance(fa, ast.Constant):
            fmts = [(fa.value, c)]
        elif isinstance(fa, ast.Name) and fa.id in [a.arg for a in f.args.args]:
            # format is a parameter: collect the constants at every call site in the class
            fmts = []
            pidx = [a.arg for a in f.args.args].index(fa.id) - 1
            for g in [s for s in rb.body if isinstance(s, ast.FunctionDef)]:
                for call in walk_no_nested(g):
                    if isinstance(call, ast.Call) and unparse(call.func) in ('self.%s' % f.name, 'cls.%s' % f.name) and len(call.args) > pidx:
                        a = call.args[pidx]
                        if isinstance(a, ast.Constant):
                            fmts.append((a.value, call))
                        elif isinstance(a, ast.Name):
                            for d in walk_no_nested(g):
                                if isinstance(d, ast.Assign):
                                    tg, vl = d.targets[0], d.value
                                    cands = []
                                    if isinstance(tg, ast.Tuple) and a.id in [unparse(x) for x in tg.elts]:
                                        i = [unparse(x) for x in tg.elts].index(a.id)
                                        if isinstance(vl, ast.IfExp):
                                            cands = [vl.body, vl.orelse]
                                        else:
                                            cands = [vl]
                                        for cv in cands:
                                            if isinstance(cv, ast.Tuple) and isinstance(cv.elts[i], ast.Constant):
                                                fmts.append((cv.elts[i].value, d))
                        else:
                            raise AnalysisError('format argument of %s not constant at %s' % (f.name, unparse(call)))
        else:
            raise AnalysisError('accumulate-by-shift loop with a non-constant format in %s' % f.name)
        if not fmts:
            raise AnalysisError('no call site constants found for %s' % f.name)
        for fm, site in fmts:
            signed = any(ch in fm for ch in 'bhilq')
            rep.check('words', 'accumulate-by-shift in %s composes unsigned words (format %r)' % (f.name, fm), not signed, site,
                      'words are unpacked with the signed format %r and OR-ed into the shifted accumulator: every negative low word sets all higher bits, so negative multi-word integers decode wrongly (e.g. -0x180000000 reads back as -0x80000000)' % fm,
                      func='readbuf:ReadBuf.%s' % f.name, stmt='word format %r' % fm, sample={'rule': 'words', 'function': f.name, 'format': fm})
    if not accum:
        # no word-by-word composition left: the reader must decode through int.from_bytes (total, sign handled by the library)
        r2 = repo.func('readbuf', 'ReadBuf.read_mpint2')
        ok = any(isinstance(n, ast.Call) and unparse(n.func) == 'int.from_bytes' for f in [s for s in rb.body if isinstance(s, ast.FunctionDef)] for n in ast.walk(f))
        rep.check('words', 'multi-precision reader decodes with int.from_bytes', ok, r2, 'no recognised multi-precision decoding idiom')
    else:
        rep.floor('words', 'accumulate-by-shift sites', len(accum), 1)
    # signed=True decoding, if present, must be applied to the whole string exactly once
    r2 = repo.func('readbuf', 'ReadBuf.read_mpint2')
    fb = [n for n in ast.walk(r2) if isinstance(n, ast.Call) and unparse(n.func) == 'int.from_bytes']
    for n in fb:
        kws = {k.arg: unparse(k.value) for k in n.keywords}
        args = [unparse(a) for a in n.args]
        ok = args[:1] == ['v'] and ("'big'" in args or kws.get('byteorder') == "'big'") and kws.get('signed') == 'True'
        rep.check('words', 'read_mpint2 decodes the whole string as big-endian two\'s complement', ok, n, 'int.from_bytes arguments: %s %s' % (args, kws))

    # the multi-precision WRITER fills every 64-bit word it allocates (the sign of a negative value lives in the top word)
    cm = repo.func('writebuf', 'WriteBuf._create_mpint')
    rep.saw(cm)
    alloc = None
    for n in walk_no_nested(cm):
        if isinstance(n, ast.Assign):
            tg, vl = n.targets[0], n.value
            pairs = list(zip(tg.elts, vl.elts)) if isinstance(tg, ast.Tuple) and isinstance(vl, ast.Tuple) else [(tg, vl)]
            for a, b in pairs:
                if isinstance(b, ast.BinOp) and isinstance(b.op, ast.Mult) and isinstance(b.left, ast.List) and unparse(b.left) == '[0]':
                    alloc = (unparse(a), unparse(b.right), n)
    if alloc is None:
        raise AnalysisError('word array allocation `[0] * n` not found in _create_mpint')
    arr, size, anode = alloc
    floops = [n for n in walk_no_nested(cm) if isinstance(n, ast.For) and any(isinstance(x, ast.Assign) and isinstance(x.targets[0], ast.Subscript) and unparse(x.targets[0].value) == arr for x in n.body)]
    ok = len(floops) == 1 and unparse(floops[0].iter) in ('range(%s)' % size, 'range(len(%s))' % arr)
    rep.check('words', '_create_mpint writes every word it allocates (%s words)' % size, ok, floops[0] if floops else cm,
              'the word loop iterates %s but the array has %s words: for a negative value whose bit length is a multiple of 64 the top (sign) word stays 0 and the value is encoded as positive' % (unparse(floops[0].iter) if floops else '?', size))
    if floops:
        st = [x for x in floops[0].body if isinstance(x, ast.Assign) and isinstance(x.targets[0], ast.Subscript)]
        ok = len(st) == 1 and unparse(st[0].targets[0].slice) == '%s - %s - 1' % (size, unparse(floops[0].target)) and unparse(st[0].value) == 'n & 18446744073709551615'
        sh = [x for x in floops[0].body if isinstance(x, ast.AugAssign) and isinstance(x.op, ast.RShift) and unparse(x.value) == '64']
        rep.check('words', 'words are written most-significant first, 64 bits at a time with an arithmetic shift', ok and len(sh) == 1, floops[0], '_create_mpint word store changed')
    fm = [n for n in walk_no_nested(cm) if isinstance(n, ast.Call) and isinstance(n.func, ast.Attribute) and n.func.attr == 'format' and isinstance(n.func.value, ast.Constant)]
    rep.check('words', 'pack format holds the same number of 64-bit words', len(fm) == 1 and fm[0].func.value.value == '>{}Q' and unparse(fm[0].args[0]) == size, fm[0] if fm else cm, 'pack format word count differs from the allocation')
    # ---- rule 4: framing ---------------------------------------------------------------------------------------------------------
    sp = F('ssh_socket', 'SSH_Socket.send_packet')
    gp = F('dheat', 'DHEat.get_padding')
    ce = ConstEnv(repo)
    sinit = repo.func('ssh_socket', 'SSH_Socket.__init__')
    bsz = [n for n in walk_no_nested(sinit) if isinstance(n, ast.Assign) and unparse(n.targets[0]) == 'self.__block_size']
    block = bsz[0].value.value if bsz and isinstance(bsz[0].value, ast.Constant) else None
    rep.check('framing', 'reader block size is 8', block == 8, bsz[0] if bsz else sinit, 'reader block size is %s' % block)

    def pad_cases(func, var, what):
        rows = []
        for L in range(0, 24):
            env = {'len(payload)': L, var: None, 'plen': None}
            try:
                track_block(func.body, env, {var, 'plen'}, on_eval=rep.evals)
            except Unknown as e:
                raise AnalysisError('%s: padding computation not interpretable: %s' % (what, e))
            pad = env[var]
            rows.append((L, pad))
            ok = isinstance(pad, int) and 4 <= pad <= 255 and (4 + 1 + L + pad) % 8 == 0 and pad < 4 + 8
            rep.check('framing', '%s: payload length %d -> padding %s (>= 4, total multiple of 8, minimal)' % (what, L, pad), ok, func, '%s: payload of %d bytes gets %s padding bytes: total %s' % (what, L, pad, (5 + L + pad) if isinstance(pad, int) else '?'))
            if func is sp and isinstance(env.get('plen'), int):
                rep.check('framing', '%s: packet_length field = payload + padding + 1 for length %d' % (what, L), env['plen'] == L + pad + 1, func, 'packet_length field is %s for payload %d padding %s' % (env['plen'], L, pad))
        return rows
    r_a = pad_cases(sp, 'padding', 'SSH_Socket.send_packet')
    r_b = pad_cases(gp, 'pad_len', 'DHEat.get_padding')
    rep.check('framing', 'both packet builders compute the same padding for every residue', r_a == r_b, gp, 'padding differs between send_packet and get_padding: %s' % [(a, b) for a, b in zip(r_a, r_b) if a != b][:3], sample={'rule': 'framing', 'padding_by_length': r_a[:8]})
    packs = fmt_of(sp)
    ok = len(packs) == 1 and packs[0][0] == '>Ib' and struct.calcsize(packs[0][0]) == 5
    rep.check('framing', 'header is packed as uint32 length + one padding-length byte (5 bytes, the constant in the padding formula)', ok, packs[0][1] if packs else sp, 'header pack format: %s' % [x for x, n in packs])
    if packs:
        args = [unparse(a) for a in packs[0][1].args[1:]]
        rep.check('framing', 'header carries (packet_length, padding_length)', args == ['plen', 'padding'], packs[0][1], 'header arguments: %s' % args)
    data = [n for n in walk_no_nested(sp) if isinstance(n, ast.Assign) and unparse(n.targets[0]) == 'data']
    ok = len(data) == 1 and unparse(data[0].value).endswith('+ payload + pad_bytes')
    rep.check('framing', 'packet = header + payload + padding', ok, data[0] if data else sp, 'packet assembly changed')
    pb = [n for n in walk_no_nested(sp) if isinstance(n, ast.Assign) and unparse(n.targets[0]) == 'pad_bytes']
    rep.check('framing', 'padding bytes have the computed length', len(pb) == 1 and unparse(pb[0].value) in ("b'\\x00' * padding",), pb[0] if pb else sp, 'pad_bytes changed')
    # reader: per protocol version the statements of read_packet are linearised and locals substituted forward (props/_framing.reader_model); what is tested
    # against the block size and what is read as payload are linear forms over the values read from the wire -- whatever temporaries or helpers compute them
    from props import _framing as _fr
    rp, rmodel = _fr.reader_model(repo)
    for proto, want_size, want_payload, what in ((2, ({'packet_length': 1}, 4), ({'packet_length': 1, 'padding_length': -1}, -1), 'length field + padding byte + payload + padding'),
                                                 (1, ({'packet_length': 1, 'padding_length': 1}, 0), ({'packet_length': 1}, -4), 'padding + payload (with its CRC)')):
        m = rmodel[proto]
        sizes = [x[0] for x in m['block_tests']]
        rep.check('framing', 'SSH-%d reader tests %s against its block size' % (proto, what), sizes == [want_size], m['block_tests'][0][2] if m['block_tests'] else rp,
                  'SSH-%d reader: the size tested against the block size is %s, expected %s' % (proto, sizes, want_size), stmt='SSH-%d block size test' % proto, sample={'rule': 'framing', 'proto': proto, 'tested': repr(sizes)})
        for lf, txt, node in m['block_tests']:
            rep.check('framing', 'reader rejects sizes that are not a multiple of its block size (SSH-%d)' % proto, txt.replace(' ', '').endswith('%self.__block_size!=0'), node, 'block size test changed: %s' % txt)
        pr = [l for nm, l in m['payload_reads'] if l == want_payload]
        rep.check('framing', 'SSH-%d reader reads a payload of %s bytes' % (proto, 'packet_length - padding_length - 1' if proto == 2 else 'packet_length - 4'), len(pr) == 1, rp,
                  'SSH-%d reader: payload read sizes are %s' % (proto, [l for nm, l in m['payload_reads']]), stmt='SSH-%d payload size' % proto)
    # CRC
    crc = repo.func('ssh1_crc32', 'SSH1_CRC32.__init__')
    rep.saw(crc)
    t = unparse(crc)
    consts = [n.value for n in ast.walk(crc) if isinstance(n, ast.Constant) and isinstance(n.value, int)]
    rep.check('crc', 'CRC-32 table: reflected polynomial 0xedb88320, 256 entries, 8 shifts per entry', 0xedb88320 in consts and consts.count(256) >= 2 and 8 in consts and 'crc >> 1' in t, crc, 'CRC table construction changed (constants %s)' % sorted(set(consts))[:8])
    cc = repo.func('ssh1_crc32', 'SSH1_CRC32.calc')
    t = unparse(cc)
    rep.check('crc', 'CRC update: crc = (crc >> 8) ^ table[(byte ^ crc) & 0xff]', 'n ^ crc & 255' in t and 'crc >> 8 ^ self._table[n]' in t, cc, 'CRC update step changed')
    ct = rmodel[1]['crc_tests']
    ok = len(ct) == 1 and ct[0][1] == 'NotEq' and 'SSH1.crc32(padding + payload)' in (ct[0][0], ct[0][2]) and any(x.startswith('WIRE_read_int_') for x in (ct[0][0], ct[0][2])) and not rmodel[2]['crc_tests']
    rep.check('crc', 'SSH-1 reader verifies the CRC over padding + payload', ok, ct[0][3] if ct else rp, 'SSH-1 CRC verification changed: %s' % [(a, o, b) for a, o, b, n in ct])

    # ---- reader side of "packets are well framed": every packet the tool emits is read back unchanged only if read_packet consumes the whole
    # packet before returning (shared symbolic byte budget, props/_framing.py)
    from props import _framing
    _rp, _fr = _framing.analyse(repo, rep)
    _framing.report(rep, _fr, 'read-framing')
