"""Model of ssh_audit.output(): which algorithm sections the text report has, what feeds them and how the status is threaded -- obtained by
abstract interpretation (sa/listinterp.py) of the function on concrete presentation values and symbolic parsed messages.  The section calls may be
written out one by one, come from a table walked by a loop, or pass their arguments by keyword / **mapping: only what reaches output_algorithms counts.
"""
import ast

from sa.core import AnalysisError, unparse, call_name
from sa.abseval import Unknown, Opaque
from sa.listinterp import Interp

KEX_FACTS = {
    'kex.kex_algorithms': ['<kex.kex_algorithms>'], 'kex.key_algorithms': ['<kex.key_algorithms>'],
    'kex.server.encryption': ['<kex.server.encryption>'], 'kex.client.encryption': ['<kex.client.encryption>'],
    'kex.server.mac': ['<kex.server.mac>'], 'kex.client.mac': ['<kex.client.mac>'],
    'kex.server.compression': ['none'], 'kex.client.compression': ['none'],
    'kex.server.languages': [''], 'kex.client.languages': [''],
}
PKM_FACTS = {'pkm.supported_ciphers': ['<pkm.supported_ciphers>'], 'pkm.supported_authentications': ['<pkm.supported_authentications>']}


class Tok:
    """a named opaque value; `attrs` are its modelled attributes (kex.server.encryption ...), reachable through any alias (srv = kex.server)"""
    def __init__(self, name, attrs=None):
        self.name = name
        self.attrs = attrs or {}

    def __repr__(self):
        return self.name

    def __deepcopy__(self, memo):
        return self

    def __eq__(self, other):
        return isinstance(other, Tok) and other.name == self.name

    def __hash__(self):
        return hash(self.name)


def message(prefix, facts):
    """Tok tree for facts given as {'kex.server.encryption': value}"""
    root = Tok('<%s>' % prefix)
    for path, val in facts.items():
        parts = path.split('.')[1:]
        cur = root
        for i, p in enumerate(parts[:-1]):
            if p not in cur.attrs:
                cur.attrs[p] = Tok('<%s.%s>' % (prefix, '.'.join(parts[:i + 1])))
            cur = cur.attrs[p]
        cur.attrs[parts[-1]] = list(val) if isinstance(val, list) else val
    return root


def attr_hook(base, attr, interp):
    if isinstance(base, Tok):
        if attr in base.attrs:
            return (True, base.attrs[attr])
        raise Unknown('no model value for attribute %s of %r' % (attr, base))
    return None


def run_output(repo, proto, json_mode=False, client=False, port=22):
    """-> {'sections': [{'alg_type', 'algorithms', 'alg_db', 'status_in', 'status_out', 'extras'}], 'returned': value, 'json_args': {...} or None}"""
    outf = repo.func('ssh_audit', 'output')
    oas = repo.func('ssh_audit', 'output_algorithms')
    bs = repo.func('ssh_audit', 'build_struct')
    from props._renderer import codes
    env = dict(codes(repo))
    params = [a.arg for a in outf.args.args]
    for need in ('out', 'aconf', 'banner', 'kex', 'pkm'):
        if need not in params:
            raise AnalysisError('output(): parameter %s not found' % need)
    env.update({'out': Opaque(), 'aconf': Opaque(), 'aconf.json': json_mode, 'aconf.host': 'h', 'aconf.port': port, 'aconf.json_print_indent': False, 'aconf.client_audit': client, 'aconf.verbose': False, 'aconf.batch': False,
                'banner': None, 'header': [], 'client_host': 'c' if client else None, 'print_target': False, 'dh_rate_test_notes': ''})
    env['kex'] = message('kex', KEX_FACTS) if proto == 2 else None
    env['pkm'] = message('pkm', PKM_FACTS) if proto == 1 else None
    for p in params:
        if p not in env:
            d = None
            nd = len(outf.args.defaults)
            for q, dv in zip(params[len(params) - nd:], outf.args.defaults):
                if q == p:
                    d = dv
            if d is None:
                raise AnalysisError('output(): no model value for parameter %s' % p)
            env[p] = ast.literal_eval(d)
    sections = []
    json_calls = []
    counter = [0]

    def hook(call, e, interp):
        t = call_name(call) or unparse(call.func)
        if t == 'output_algorithms':
            b = interp.bind_values(call, oas, e)
            counter[0] += 1
            tok = Tok('<status %d>' % counter[0])
            e.setdefault('<sections>', []).append({'alg_type': b.get('alg_type'), 'algorithms': b.get('algorithms'), 'alg_db': b.get('alg_db'), 'status_in': b.get('program_retval'), 'status_out': tok,
                                                   'unknown_list': b.get('unknown_algs'), 'extras': sorted(k for k in ('host_keys', 'dh_modulus_sizes') if b.get(k) is not None), 'node': call})
            return (True, tok)
        if t == 'build_struct':
            b = interp.bind_values(call, bs, e)
            e.setdefault('<json>', []).append(b)
            return (True, Opaque())
        if t in ('SSH2_KexDB.get_db', 'SSH1_KexDB.get_db'):
            return (True, Tok('<%s()>' % t))
        if t in ('kex.dh_modulus_sizes', 'kex.host_keys'):
            return (True, Tok('<%s()>' % t))
        if t == 'out.is_section_empty':
            return (True, True)
        if t == 'post_process_findings':
            return (True, (Opaque(), Opaque()))
        return None
    it = Interp(call_hook=hook, budget=40000, attr_hook=attr_hook)
    try:
        finals = it.run(outf.body, env)
    except Unknown as ex:
        raise AnalysisError('output() cannot be interpreted (SSH-%d%s): %s' % (proto, ', JSON' if json_mode else '', ex))
    finals = [f for f in finals if f.get('<outcome>') != 'raise']
    if not finals:
        raise AnalysisError('output(): no returning path (SSH-%d)' % proto)
    results = []
    for f in finals:
        results.append({'sections': f.get('<sections>', []), 'returned': f.get('<return>'), 'json': f.get('<json>', []), 'forks': f.get('<forks>', [])})
    return results


def run_build_struct(repo, proto, client=False, sizes=False, key_names=None, host_keys=None):
    """Interpret build_struct for a parsed SSH-2 (or SSH-1) message whose name-lists hold two tokens plus an empty and a blank name.  -> the result dictionary."""
    bs = repo.func('ssh_audit', 'build_struct')
    params = [a.arg for a in bs.args.args]
    for need in ('banner', 'kex', 'pkm'):
        if need not in params:
            raise AnalysisError('build_struct(): parameter %s not found' % need)
    env = {'target_host': 'h:22', 'banner': Tok('<banner>'), 'banner.protocol': (2, 0), 'banner.software': '<banner.software>', 'banner.comments': '<banner.comments>',
           'client_host': 'c' if client else None, 'software': Opaque(), 'algorithms': Opaque(), 'algorithm_recommendation_suppress_list': Opaque(), 'additional_notes': ['<note>'],
           'HostKeyTest.RSA_FAMILY': ['ssh-rsa', 'rsa-sha2-256', 'rsa-sha2-512']}
    lists = {}
    if proto == 2:
        for k in KEX_FACTS:
            short = k.split('.', 1)[1]
            lists[k] = ['<%s No.1>' % short, '', '<%s No.2>' % short, '  ']
        lists['kex.server.compression'] = ['none', '<zlib>']
        if key_names is not None:
            lists['kex.key_algorithms'] = list(key_names)
        env['kex'] = message('kex', lists)
        env['pkm'] = None
    else:
        env['kex'] = None
        env['pkm'] = message('pkm', dict(PKM_FACTS, **{'pkm.host_key_fingerprint_data': Opaque()}))
    nd = len(bs.args.defaults)
    for q, dv in zip(params[len(params) - nd:], bs.args.defaults):
        if q not in env:
            env[q] = ast.literal_eval(dv)
    for p in params:
        if p not in env:
            raise AnalysisError('build_struct(): no model value for parameter %s' % p)

    def hook(call, e, interp):
        t = call_name(call) or unparse(call.func)
        if t == 'fetch_notes':
            vals = [interp.value(a, e) for a in call.args] + [interp.value(k.value, e) for k in call.keywords]
            return (True, ('notes',) + tuple(vals))
        if t == 'kex.dh_modulus_sizes':
            return (True, {'<kex_algorithms No.1>': 2048} if sizes else {})
        if t == 'kex.host_keys':
            import copy as _copy
            return (True, _copy.deepcopy(host_keys) if host_keys is not None else {})
        if t == 'str' and len(call.args) == 1 and unparse(call.args[0]) == 'banner':
            return (True, '<str(banner)>')
        if t in ('get_algorithm_recommendations', 'Fingerprint'):
            return (True, Opaque())
        if t in ('SSH2_KexDB.get_db', 'SSH1_KexDB.get_db') and not call.args:
            # a rating table that knows the first name of every list and not the second
            return (True, {c: {'<%s No.1>' % src.split('.', 1)[1]: [[]]} for c, src in (('kex', 'kex.kex_algorithms'), ('key', 'kex.key_algorithms'), ('enc', 'kex.server.encryption'), ('mac', 'kex.server.mac'))})
        return None
    fn = repo.func('ssh_audit', 'build_struct.fetch_notes') if repo.has_func('ssh_audit', 'build_struct.fetch_notes') else None
    it = Interp(call_hook=hook, budget=40000, attr_hook=attr_hook)
    try:
        finals = it.run(bs.body, env)
    except Unknown as ex:
        raise AnalysisError('build_struct() cannot be interpreted (SSH-%d): %s' % (proto, ex))
    finals = [f for f in finals if f.get('<outcome>') == 'return']
    if len(finals) != 1 or finals[0].get('<forks>') or not isinstance(finals[0].get('<return>'), dict):
        raise AnalysisError('build_struct() does not evaluate to one dictionary (SSH-%d): forks %s' % (proto, [f.get('<forks>') for f in finals][:2]))
    return finals[0]['<return>'], lists


def printed_lines(repo, funcname, host, port, ipv6, json_mode=False):
    """Lines the text report prints through the output buffer when `output` (with print_target) or `evaluate_policy` runs for a server audit of host:port.
    -> [text]"""
    f = repo.func('ssh_audit', funcname)
    from props._renderer import codes
    env = dict(codes(repo))
    aconf = Tok('<aconf>', {'host': host, 'port': port, 'json': json_mode, 'json_print_indent': False, 'client_audit': False, 'verbose': False, 'batch': False,
                            'policy': Tok('<policy>')})
    env.update({'out': Opaque(), 'aconf': aconf, 'banner': None, 'header': [], 'client_host': None, 'kex': None, 'pkm': None, 'print_target': True, 'dh_rate_test_notes': ''})
    lines = []

    def hook(call, e, interp):
        t = call_name(call) or unparse(call.func)
        fn = call.func
        if t == 'Utils.is_ipv6_address':
            return (True, ipv6)
        if t == 'Utils.is_windows':
            return (True, False)
        if isinstance(fn, ast.Attribute) and unparse(fn.value) == 'out' and fn.attr in ('good', 'info', 'warn', 'fail', 'head'):
            try:
                v = interp.value(call.args[0], e) if call.args else ''
            except Unknown:
                v = Opaque()
            e.setdefault('<lines>', []).append(v)
            return (True, None)
        if isinstance(fn, ast.Attribute) and fn.attr == 'evaluate' and unparse(fn.value).endswith('policy'):
            return (True, (True, [], ''))
        if isinstance(fn, ast.Attribute) and unparse(fn.value).endswith('policy'):
            return (True, '<%s>' % fn.attr)
        if t == 'out.is_section_empty':
            return (True, True)
        if t == 'post_process_findings':
            return (True, (Opaque(), Opaque()))
        if t == 'json.dumps' and call.args:
            try:
                return (True, ('json', interp.value(call.args[0], e)))
            except Unknown:
                return (True, Opaque())
        return None
    try:
        finals = Interp(call_hook=hook, attr_hook=attr_hook, budget=40000).run(f.body, env)
    except Unknown as ex:
        raise AnalysisError('%s cannot be interpreted: %s' % (funcname, ex))
    finals = [x for x in finals if x.get('<outcome>') != 'raise']
    if len(finals) != 1 or finals[0].get('<forks>'):
        raise AnalysisError('%s does not evaluate on a single path (forks %s)' % (funcname, [x.get('<forks>') for x in finals][:2]))
    return finals[0].get('<lines>', [])
