"""C15 -- output options change presentation only, never findings or verdict."""
import ast
import itertools

from sa.core import AnalysisError, unparse, walk_no_nested, stmt_text, call_name, bind_args, attr_chain, func_id, get_kw
from sa.logic import path_condition, eval_prop, text_atomizer
from sa.cfg import CFG, describe_path
from sa.callgraph import CallGraph
from sa.slicer import Slice, uses
from sa.consteval import ConstEnv

EXPL = ('Decides from the AST: (1) the backward slices of the (level, note) list and of the running status in the renderer read no presentation option (batch, verbose, level, colours, json); '
        '(2) in the per-note loop a line is suppressed only for a non-first, non-verbose, empty note (truth table), and no fail/warn note in the table is empty; (3) the minimum-level filter in OutputBuffer._print is a guard '
        'whose true branch returns before any buffer is touched, its only input is get_level() which is monotone on (info, warn, fail); (4) every json.dumps on an output path has sort_keys=True and the documented indent; in output() the '
        'JSON branch resets the buffer, emits exactly one dumps() result and nothing follows; colours are switched off in JSON mode before the scan; immediate writes (write_now=True, print) reachable in a standard or policy audit are suppressed or '
        'redirected in JSON mode; (5) no iteration over sets / hash()/id() on the audit path, recommendations are flushed sorted, JSON fingerprints iterate sorted keys. '
        'Not decided: byte identity of repeated real runs.')

PRESENTATION = ('out.batch', 'out.verbose', 'out.level', 'out.use_colors', 'out.json', 'out.debug', 'aconf.json', 'aconf.json_print_indent', 'aconf.level', 'aconf.batch', 'aconf.verbose', 'aconf.colors', 'is_json_output')
# explicit-request / non-audit functions whose direct prints are outside the property's scope (interactive modes, policy file creation, listing)
OUT_OF_SCOPE_PRINTERS = ('dheat:DHEat.', 'ssh_audit:make_policy', 'ssh_audit:list_policies', 'ssh_audit:process_commandline', 'ssh_audit:builtin_manual')


def run(repo, rep, tier):
    rep.explanation = EXPL
    ce = ConstEnv(repo)
    oa = repo.func('ssh_audit', 'output_algorithm')
    outf = repo.func('ssh_audit', 'output')
    rep.saw(oa), rep.saw(outf)

    # ---- rule 1: non-interference -----------------------------------------------------------------------------------
    # the per-name renderer, by interpretation (props/_renderer.py): for every name of the scenario family the returned status and the unknown-name
    # list are the same under every combination of batch / verbose / padding width, and every note of the name is printed (once) unless it is a
    # non-first, empty note in non-verbose mode
    from props import _renderer
    _renderer.verify(repo, rep, ['noninterference', 'emit'], {'noninterference': 'noninterference', 'emit': 'drop'})
    # the same for the whole chain that produces the exit status (data and control dependence, joined at the call sites)
    from props import _status
    for fname, fnode, R in _status.status_slices(repo, oa_by_model=True):
        rep.saw(fnode)
        bad = sorted(r for r in R if any(r == p or r.startswith(p + '.') for p in PRESENTATION) or r.startswith('out.') or r in ('is_json_output',))
        rep.check('noninterference', 'the exit status computed by %s reads no presentation option or output-buffer state' % fname, not bad, fnode,
                  'the exit status depends on presentation state in %s: %s (the same peer exits differently under -l / -b / -v / -j)' % (fname, bad), stmt='status slice of %s' % fname,
                  sample={'rule': 'noninterference', 'function': fname, 'slice_size': len(R)})
    # text and JSON are rendered one after the other from the same parsed lists: nothing on the audit path may edit those lists in place in between
    # (shared provenance/alias scan, props/_listedits.py)
    from props import _listedits
    _edits, _nf = _listedits.edits(repo)
    rep.floor('noninterference', 'functions scanned for in-place edits of the parsed lists', _nf, 100)
    for _f, _node, _desc in _edits:
        rep.check('noninterference', 'the parsed name-lists are the same for every rendering', False, _node,
                  'the parsed name-list is edited in place (%s) in %s.%s: renderings made after this point (JSON, recommendations) list other algorithms than those made before it (text), so the formats disagree on the findings' % (_desc, _f._module.name, _f._qualname),
                  stmt='in-place edit of a parsed list in %s' % _f._qualname)
    if not _edits:
        rep.ob('noninterference', 'no function on the audit path edits a parsed name-list in place (%d functions)' % _nf, True)
    # ---- rule 2: verbose/batch drop nothing rated (renderer model above, clause 'emit') ------------------------------------------------
    db2 = ce.lookup('ssh2_kexdb', 'SSH2_KexDB.MASTER_DB')
    db1 = ce.lookup('ssh1_kexdb', 'SSH1_KexDB.MASTER_DB')
    empties = [(c, n) for db in (db1, db2) for c, e in db.items() for n, rows in e.items() for r in rows[1:3] for t in r if not t]
    rep.check('drop', 'no fail/warn note in the tables is empty (so no rated note is dropped)', not empties, repo.cls('ssh2_kexdb', 'SSH2_KexDB'), 'empty fail/warn note for %s' % empties[:3])
    # ---- rule 3: level filter ---------------------------------------------------------------------------------------------
    pr = repo.func('outputbuffer', 'OutputBuffer._print')
    rep.saw(pr)
    # OutputBuffer._print interpreted (sa/listinterp.py; helper methods of the class in place) for every combination of always_print x JSON mode x level x minimum
    # level x buffered / in a section: a line is stored (or printed) exactly when it is always_print, or JSON mode is on, or its level ranks at least the minimum;
    # what is stored is the text itself (colours off)
    from sa.listinterp import Interp as _I
    from sa.abseval import Unknown as _Unknown, Opaque as _Opq
    levels_ = list(ce.lookup('outputbuffer', 'OutputBuffer.LEVELS'))
    pparams = [a.arg for a in pr.args.args]
    if pparams[:3] != ['self', 'level', 's']:
        raise AnalysisError('OutputBuffer._print: parameters are %s' % pparams)

    def _resolver(call):
        f = call.func
        if isinstance(f, ast.Attribute) and isinstance(f.value, ast.Name) and f.value.id == 'self' and f.attr not in ('_print',) and repo.has_func('outputbuffer', 'OutputBuffer.' + f.attr):
            return repo.func('outputbuffer', 'OutputBuffer.' + f.attr)
        return None
    rows_bad = []
    drops_json = False
    nrows = 0
    for ap_, js_, lvl, min_, buffered, in_sec in itertools.product([False, True], [False, True], ['info', 'warn', 'fail', 'good'], [0, 1, 2], [True, False], [False, True]):
        env = {'self': _Opq(), 'level': lvl, 's': '<text>', 'line_ended': True, 'always_print': ap_, 'self.json': js_, 'self.__level': min_, 'self.use_colors': False, 'self.colors_supported': False,
               'self.buffer_output': buffered, 'self.in_section': in_sec, 'self.section': [], 'self.buffer': [], 'self.line_ended': True, 'self.LEVELS': tuple(levels_), 'OutputBuffer.LEVELS': tuple(levels_), 'sys.maxsize': 2 ** 63 - 1}
        printed = []

        def hook_p(call, e, interp, printed=printed):
            if unparse(call.func) == 'print':
                printed.append(interp.value(call.args[0], e) if call.args else '')
                return (True, None)
            return None
        try:
            finals = _I(call_hook=hook_p, resolver=_resolver, try_normal_path=True).run(pr.body, env)
        except _Unknown as ex:
            raise AnalysisError('OutputBuffer._print cannot be interpreted: %s' % ex)
        if len(finals) != 1 or finals[0].get('<forks>'):
            raise AnalysisError('OutputBuffer._print: outcome depends on a condition the analysis does not model: %s' % [f.get('<forks>') for f in finals][:2])
        fe = finals[0]
        nrows += 1
        rep.evals()
        stored = list(fe.get('self.section', [])) + list(fe.get('self.buffer', [])) + printed
        rank_ = levels_.index('info' if lvl == 'good' else lvl)
        want_kept = ap_ or js_ or rank_ >= min_
        kept = stored == ['<text>']
        if js_ and not kept:
            drops_json = True
        if (kept != want_kept or (stored and stored != ['<text>'])) and not js_:
            rows_bad.append((ap_, lvl, min_, 'buffered' if buffered else 'unbuffered', stored))
        if buffered and kept and ((in_sec and fe.get('self.section') != ['<text>']) or (not in_sec and fe.get('self.buffer') != ['<text>'])):
            rows_bad.append((ap_, lvl, min_, 'wrong buffer', stored))
    rep.check('level-filter', 'filter condition: a line is dropped iff it is not always_print and its level ranks below the minimum (text mode, %d cases)' % nrows, not rows_bad, pr,
              'filter condition is wrong: always_print=%s level %s minimum rank %s (%s) -> stored %s' % (rows_bad[0] if rows_bad else (None,) * 5), stmt='level filter table')
    json_exempt = not drops_json
    cls = repo.cls('outputbuffer', 'OutputBuffer')
    readers = set()
    for n in ast.walk(cls):
        if isinstance(n, ast.Attribute) and n.attr == '__level' and isinstance(n.ctx, ast.Load):
            readers.add(n._func.name if n._func is not None else '<class>')
    rep.check('level-filter', 'the minimum level is read only by the filter and the level property', readers <= {'_print', 'level'}, cls, 'minimum level read in %s' % sorted(readers))
    levels = ce.lookup('outputbuffer', 'OutputBuffer.LEVELS')
    rep.check('level-filter', 'LEVELS is (info, warn, fail) in ascending severity', tuple(levels) == ('info', 'warn', 'fail'), cls, 'LEVELS is %s' % (levels,))
    gl = repo.func('outputbuffer', 'OutputBuffer.get_level')
    got_gl = {}
    for nm_ in ('info', 'warn', 'fail', 'good'):
        try:
            fin_ = _I(try_normal_path=True).run(gl.body, {'self': _Opq(), 'name': nm_, 'self.LEVELS': tuple(levels_), 'OutputBuffer.LEVELS': tuple(levels_), 'sys.maxsize': 2 ** 63 - 1})
        except _Unknown as ex:
            raise AnalysisError('OutputBuffer.get_level cannot be interpreted: %s' % ex)
        got_gl[nm_] = [f_.get('<return>') for f_ in fin_]
    rep.check('level-filter', 'get_level ranks by position in LEVELS (good == info)', got_gl == {'info': [0], 'warn': [1], 'fail': [2], 'good': [0]}, gl, 'get_level changed: returns %s' % got_gl)
    # text passed to _print is only wrapped in colour codes: with colours on, the stored line still contains the text unchanged
    env = {'self': _Opq(), 'level': 'fail', 's': '<text>', 'line_ended': True, 'always_print': False, 'self.json': False, 'self.__level': 0, 'self.use_colors': True, 'self.colors_supported': True,
           'self.buffer_output': True, 'self.in_section': False, 'self.section': [], 'self.buffer': [], 'self.line_ended': True, 'self.LEVELS': tuple(levels_), 'OutputBuffer.LEVELS': tuple(levels_), 'sys.maxsize': 2 ** 63 - 1,
           'self.COLORS': dict(ce.lookup('outputbuffer', 'OutputBuffer.COLORS')), 'OutputBuffer.COLORS': dict(ce.lookup('outputbuffer', 'OutputBuffer.COLORS'))}
    try:
        finals = _I(resolver=_resolver, try_normal_path=True).run(pr.body, env)
    except _Unknown as ex:
        raise AnalysisError('OutputBuffer._print (colours on) cannot be interpreted: %s' % ex)
    got_ = [x for f_ in finals for x in f_.get('self.buffer', [])]
    ok = bool(got_) and all(isinstance(x, str) and '<text>' in x and x.replace('<text>', '').isprintable() is False or x == '<text>' for x in got_)
    rep.check('level-filter', 'a printed line is altered only by colour codes', ok, pr, '_print rewrites the line text: %r' % got_, stmt='colour wrapping')
    for meth in ('fail', 'warn', 'info', 'good'):
        f = repo.func('outputbuffer', 'OutputBuffer.' + meth)
        calls = [n for n in walk_no_nested(f) if isinstance(n, ast.Call) and unparse(n.func) == 'self._print']
        ok = len(calls) == 1 and isinstance(calls[0].args[0], ast.Constant) and calls[0].args[0].value == meth and unparse(calls[0].args[1]) == 's'
        rep.check('level-filter', 'out.%s prints its text at level %s' % (meth, meth), ok, f, 'out.%s no longer prints at its own level' % meth)

    # ---- rule 4: one JSON document -------------------------------------------------------------------------------------------
    cg = CallGraph(repo)
    au = repo.func('ssh_audit', 'audit')
    reach = cg.reachable([au, repo.func('ssh_audit', 'main'), repo.func('ssh_audit', 'target_worker_thread')])
    dumps = []
    for f in reach:
        for n in walk_no_nested(f):
            if isinstance(n, ast.Call) and unparse(n.func) == 'json.dumps':
                dumps.append((f, n))
    out_dumps = [(f, n) for f, n in dumps if f._module.name == 'ssh_audit']
    rep.floor('json', 'json.dumps sites on output paths', len(out_dumps), 3)
    for f, n in out_dumps:
        sk = get_kw(n, 'sort_keys')
        ind = get_kw(n, 'indent')
        rep.check('json', '%s: json.dumps(sort_keys=True)' % func_id(f), sk is not None and unparse(sk) == 'True', n, 'JSON emitted without sort_keys=True: key order depends on construction order')
        rep.check('json', '%s: indent is 4 iff json_print_indent else None' % func_id(f), ind is not None and unparse(ind) == '4 if aconf.json_print_indent else None', n, 'JSON indent argument is %s' % (unparse(ind) if ind is not None else 'missing'))
        # the document must not be subject to the minimum-level filter (-l warn / -l fail would otherwise drop the whole document)
        par = n._parent
        ap = get_kw(par, 'always_print') if isinstance(par, ast.Call) else None
        rep.check('json', '%s: the JSON document is exempt from the minimum-level filter' % func_id(f), json_exempt or (ap is not None and unparse(ap) == 'True'), n,
                  'the JSON document is emitted with out.info() at level info: with -l warn or -l fail the level filter drops it and stdout is empty (not a JSON document)')
        rep.check('json', '%s: the document is emitted through out.info' % func_id(f), isinstance(par, ast.Call) and unparse(par.func) == 'out.info', n, 'JSON document not emitted through out.info')
    # output(): reset, then one emission, nothing after
    c = CFG(outf, exc_edges=False)
    jb = [n for n in walk_no_nested(outf) if isinstance(n, ast.If) and unparse(n.test) == 'aconf.json' and any(isinstance(x, ast.Call) and unparse(x.func) == 'json.dumps' for x in ast.walk(n))]
    ok = len(jb) == 1
    rep.check('json', 'output() has one JSON branch', ok, outf, 'JSON branch of output() not found')
    if ok:
        b = jb[0].body
        calls_ = [unparse(s.value.func) for s in b if isinstance(s, ast.Expr) and isinstance(s.value, ast.Call)]
        rep.check('json', 'JSON branch: out.reset() then exactly one out.info(json.dumps(...))', calls_ == ['out.reset', 'out.info'], jb[0], 'JSON branch performs %s' % calls_)
        # nothing is emitted after the JSON branch on the JSON path
        jnode = c.branch(jb[0], True)
        after = c.reachable(jnode)
        emit_after = []
        for n in after:
            if n.stmt is not None and n.kind == 'stmt' and n.stmt not in b:
                for x in walk_no_nested(n.stmt):
                    if isinstance(x, ast.Call) and isinstance(x.func, ast.Attribute) and unparse(x.func.value) == 'out' and x.func.attr in ('info', 'warn', 'fail', 'good', 'head', 'sep', 'v', 'd', 'write'):
                        emit_after.append(n.stmt)
        rep.check('json', 'nothing is emitted after the JSON document in output()', not emit_after, emit_after[0] if emit_after else jb[0], 'text emitted after the JSON document: %s' % (stmt_text(emit_after[0]) if emit_after else ''))
        # everything rendered before the branch in JSON mode goes to the buffer that reset() discards: all flushes are under `not json`
        for n in walk_no_nested(outf):
            if isinstance(n, ast.Call) and unparse(n.func) in ('out.write',):
                rep.check('json', 'output() does not write the buffer itself', False, n, 'output() writes buffered text before the JSON document')
    rs = repo.func('outputbuffer', 'OutputBuffer.reset')
    # reset() interpreted on a buffer with pending section and general lines: afterwards both are empty and nothing was printed
    env_r = {'self': _Opq(), 'self.section': ['<pending section line>'], 'self.buffer': ['<pending line>'], 'self.in_section': False, 'self.json': True, 'self.buffer_output': True, 'self.line_ended': True}
    printed_r = []

    def hook_r(call, e, interp):
        if unparse(call.func) == 'print':
            printed_r.append(1)
            return (True, None)
        return None

    def _res_r(call):
        f = call.func
        if isinstance(f, ast.Attribute) and isinstance(f.value, ast.Name) and f.value.id == 'self' and f.attr != 'reset' and repo.has_func('outputbuffer', 'OutputBuffer.' + f.attr):
            return repo.func('outputbuffer', 'OutputBuffer.' + f.attr)
        return None
    try:
        fin_r = _I(call_hook=hook_r, resolver=_res_r, try_normal_path=True).run(rs.body, env_r)
    except _Unknown as ex:
        raise AnalysisError('OutputBuffer.reset cannot be interpreted: %s' % ex)
    ok_r = len(fin_r) == 1 and not fin_r[0].get('<forks>') and fin_r[0].get('self.section') == [] and fin_r[0].get('self.buffer') == [] and not printed_r
    rep.check('json', 'reset() discards section and buffer', ok_r, rs, 'OutputBuffer.reset changed: afterwards section=%r buffer=%r, printed=%s' % (fin_r[0].get('self.section') if fin_r else None, fin_r[0].get('self.buffer') if fin_r else None, bool(printed_r)))
    # colours off in JSON mode before the scan
    for fn, scan in (('main', 'audit'), ('target_worker_thread', 'audit')):
        f = repo.func('ssh_audit', fn)
        cf = CFG(f, exc_edges=False)
        offs = cf.stmts_matching(lambda st: isinstance(st, ast.Assign) and unparse(st) == 'out.use_colors = False' and any(unparse(t) in ('aconf.json', 'my_aconf.json') and p for t, p, k in path_condition(st)))
        jflag = cf.stmts_matching(lambda st: isinstance(st, ast.Assign) and unparse(st) == 'out.json = True')
        scans = cf.stmts_matching(lambda st: not isinstance(st, (ast.If, ast.For, ast.While, ast.With, ast.Try, ast.FunctionDef)) and any(isinstance(x, ast.Call) and call_name(x) == scan for x in walk_no_nested(st)))
        rep.floor('json', 'scan call in %s' % fn, len(scans), 1)
        rep.check('json', '%s: JSON mode switches colours off and marks the buffer' % fn, bool(offs) and bool(jflag), f, '%s no longer sets out.use_colors = False / out.json = True in JSON mode' % fn)
    # audit() must not switch colours back on in JSON mode: out.use_colors = aconf.colors is overridden?  (recorded)
    # policy warnings go to stderr in JSON mode
    pi = repo.func('policy', 'Policy.__init__')
    wt = [n for n in walk_no_nested(pi) if isinstance(n, ast.Assign) and unparse(n.targets[0]) == 'self._warning_target']
    # decided by evaluating the stores for both values of json_output (if/else, conditional expression, table lookup alike)
    from sa.abseval import ev as _ev_wt, Unknown as _Unk_wt
    got_wt = {}
    for jo in (True, False):
        vals = set()
        for n in wt:
            conds = [(t, p) for t, p, k in path_condition(n) if k in ('if', 'guard', 'ifexp')]
            try:
                live = all(bool(_ev_wt(t, {'json_output': jo})) == p for t, p in conds)
                if live:
                    v = _ev_wt(n.value, {'json_output': jo, 'sys.stderr': '<stderr>', 'sys.stdout': '<stdout>'})
                    vals.add(v)
            except _Unk_wt as ex:
                raise AnalysisError('policy warning target: %s' % ex)
        got_wt[jo] = vals
    ok = got_wt == {True: {'<stderr>'}, False: {'<stdout>'}}
    rep.check('json', 'policy warnings go to stderr when JSON output is expected', ok, wt[0] if wt else pi, 'policy warnings are written to %s when JSON output is expected and to %s otherwise' % (sorted(got_wt[True]), sorted(got_wt[False])))
    for n in walk_no_nested(pi):
        if isinstance(n, ast.Call) and isinstance(n.func, ast.Name) and n.func.id == 'print' and 'WARNING_DEPRECATED' in unparse(n):
            fk = get_kw(n, 'file')
            rep.check('json', 'deprecation warning printed to the selected target', fk is not None and unparse(fk) == 'self._warning_target', n, 'deprecation warning printed to stdout unconditionally')
    # immediate writes reachable from a standard / policy audit
    vf = repo.func('outputbuffer', 'OutputBuffer.v')
    rep.saw(vf)
    vw = [n for n in walk_no_nested(vf) if isinstance(n, ast.Call) and unparse(n.func) == 'self.write']
    v_guarded = bool(vw) and all(any(('self.json' in unparse(t)) for t, p, k in path_condition(w)) for w in vw)
    if v_guarded:
        # polarity check by truth table: write happens only when json is False
        atz2 = text_atomizer({'self.verbose': 'verbose', 'self.debug': 'debug', 'self.json': 'json', 'write_now': 'wn'})
        okv = True
        for bits in itertools.product([False, True], repeat=4):
            val = dict(zip(['verbose', 'debug', 'json', 'wn'], bits))
            for w in vw:
                fires = all(eval_prop(t, atz2, val) == p for t, p, k in path_condition(w))
                if fires and val['json']:
                    okv = False
        v_guarded = okv
    nsites = 0
    for f in reach:
        fid = func_id(f)
        if any(fid.startswith(p) for p in OUT_OF_SCOPE_PRINTERS):
            continue
        for n in walk_no_nested(f):
            if isinstance(n, ast.Call) and isinstance(n.func, ast.Attribute) and get_kw(n, 'write_now') is not None and unparse(get_kw(n, 'write_now')) == 'True':
                meth = n.func.attr
                if meth == 'd':
                    continue            # debug output (-d) is outside the property's option set
                nsites += 1
                conds = [(unparse(t), p) for t, p, k in path_condition(n)]
                guarded = any(('json' in t and not p) for t, p in conds)
                okw = guarded or (meth == 'v' and v_guarded)
                rep.check('json', 'immediate write %s in %s is suppressed in JSON mode' % (unparse(n)[:50], fid), okw, n,
                          'with -v and -j this line is written to stdout immediately, before (outside) the JSON document: %s' % unparse(n)[:90])
            if isinstance(n, ast.Call) and isinstance(n.func, ast.Name) and n.func.id == 'print' and fid not in ('ssh_audit:main',):
                fk = get_kw(n, 'file')
                conds = [(unparse(t), p) for t, p, k in path_condition(n)]
                okp = (fk is not None and unparse(fk) in ('sys.stderr', 'self._warning_target')) or fid in ('outputbuffer:OutputBuffer.write', 'outputbuffer:OutputBuffer._print') or any('SNAP_PACKAGE' in t for t, p in conds) \
                    or fid.startswith('policy:Policy.__init__') or fid == 'ssh_socket:SSH_Socket.listen_and_accept'
                rep.check('json', 'direct print in %s does not go to stdout during an audit' % fid, okp, n, 'bare print() to stdout on the audit path: %s' % unparse(n)[:80])
    rep.floor('json', 'immediate-write sites examined', nsites, 8)
    # _print's unbuffered branch is never taken for audit buffers (buffer_output defaults True and is never set False)
    bo = [n for m in repo.modules.values() for n in ast.walk(m.tree) if isinstance(n, ast.Attribute) and n.attr == 'buffer_output' and isinstance(n.ctx, ast.Store) and (n._func is None or n._func.name != '__init__')]
    ctor_false = [n for m in repo.modules.values() for n in ast.walk(m.tree) if isinstance(n, ast.Call) and call_name(n) == 'OutputBuffer' and (n.args or n.keywords)]
    rep.check('json', 'every OutputBuffer is buffered', not bo and not ctor_false, (bo or ctor_false or [cls])[0], 'an OutputBuffer is switched to unbuffered printing')

    # ---- rule 5: determinism ---------------------------------------------------------------------------------------------------
    nfun = 0
    for f in reach:
        fid = func_id(f)
        if fid.startswith('dheat:') or fid in ('ssh_audit:algorithm_lookup', 'ssh_audit:process_commandline', 'ssh_audit:list_policies'):
            continue
        nfun += 1
        setnames = set()

        def is_set(v):
            """abstract type: the expression evaluates to a set (display, comprehension, constructor, set algebra on one, a local bound to one)"""
            if isinstance(v, (ast.Set, ast.SetComp)):
                return True
            if isinstance(v, ast.Call) and isinstance(v.func, ast.Name) and v.func.id in ('set', 'frozenset'):
                return True
            if isinstance(v, ast.Name):
                return v.id in setnames
            if isinstance(v, ast.BinOp) and isinstance(v.op, (ast.Sub, ast.BitOr, ast.BitAnd, ast.BitXor)):
                return is_set(v.left) or is_set(v.right)
            if isinstance(v, ast.Call) and isinstance(v.func, ast.Attribute) and v.func.attr in ('union', 'intersection', 'difference', 'symmetric_difference', 'copy'):
                return is_set(v.func.value)
            if isinstance(v, ast.IfExp):
                return is_set(v.body) or is_set(v.orelse)
            return False
        grew = True
        while grew:
            grew = False
            for n in walk_no_nested(f):
                if isinstance(n, (ast.Assign, ast.AnnAssign)) and n.value is not None and is_set(n.value):
                    for t in (n.targets if isinstance(n, ast.Assign) else [n.target]):
                        if isinstance(t, ast.Name) and t.id not in setnames:
                            setnames.add(t.id)
                            grew = True
        ORDER_FREE = ('any', 'all', 'sum', 'len', 'set', 'frozenset', 'sorted', 'min', 'max')
        for n in walk_no_nested(f):
            its = []
            if isinstance(n, ast.For):
                its.append(n.iter)
            if isinstance(n, (ast.ListComp, ast.GeneratorExp, ast.DictComp)):
                par = getattr(n, '_parent', None)
                if not (isinstance(par, ast.Call) and isinstance(par.func, ast.Name) and par.func.id in ORDER_FREE and par.args and par.args[0] is n):      # the consumer does not depend on the order
                    its += [g.iter for g in n.generators]
            if isinstance(n, ast.Call) and isinstance(n.func, ast.Name) and n.func.id in ('list', 'tuple') and n.args:
                its.append(n.args[0])
            if isinstance(n, ast.Call) and isinstance(n.func, ast.Attribute) and n.func.attr == 'join' and n.args:
                its.append(n.args[0])
            for it in its:
                if is_set(it):
                    rep.check('determinism', 'no iteration over a set in %s' % fid, False, n, 'iteration order of a set depends on the hash seed: %s' % unparse(it)[:60])
            if isinstance(n, ast.Call) and isinstance(n.func, ast.Name) and n.func.id in ('hash', 'id'):
                rep.check('determinism', 'no hash()/id() in %s' % fid, False, n, '%s() on the audit path' % n.func.id)
    rep.floor('determinism', 'functions scanned for hash-order dependence', nfun, 120)
    orc = repo.func('ssh_audit', 'output_recommendations')
    fl = [n for n in walk_no_nested(orc) if isinstance(n, ast.Call) and unparse(n.func) == 'out.flush_section']
    rep.check('determinism', 'recommendation lines are flushed sorted', len(fl) == 1 and get_kw(fl[0], 'sort_section') is not None and unparse(get_kw(fl[0], 'sort_section')) == 'True', fl[0] if fl else orc, 'recommendations no longer flushed with sort_section=True')
    bs = repo.func('ssh_audit', 'build_struct')
    fp_loops = [n for n in walk_no_nested(bs) if isinstance(n, ast.For) and 'host_keys' in unparse(n.iter) and any("res['fingerprints'].append" in unparse(x) for x in ast.walk(n))]
    rep.check('determinism', 'JSON fingerprints iterate sorted host-key types', len(fp_loops) == 1 and unparse(fp_loops[0].iter) == 'sorted(host_keys)', fp_loops[0] if fp_loops else bs, 'JSON fingerprint order is not sorted')
    ofp = repo.func('ssh_audit', 'output_fingerprints')
    srt = [n for n in walk_no_nested(ofp) if isinstance(n, ast.Assign) and unparse(n.value) == 'sorted(fps.keys())']
    rep.check('determinism', 'text fingerprints iterate sorted types', len(srt) == 1, ofp, 'text fingerprint order is not sorted')
    rep.note('observation (outside the property: --lookup is not an audit): algorithm_lookup iterates set comprehensions, so `--lookup a,b` lists names in hash-seed dependent order')
