"""C16 -- identification strings are recognised, decomposed and sanitised correctly (acceptance / structure)."""
import ast
import re

from sa.core import AnalysisError, unparse, walk_no_nested, stmt_text, call_name, bind_args, attr_chain, func_id
from sa.logic import path_condition
from sa.abseval import ev, Unknown
from sa.cfg import CFG, describe_path
from sa.consteval import ConstEnv, NotLiteral
from sa.regex_automata import Lang, inclusion, Unsupported

EXPL = ('Decides: (a) acceptance -- the tool\'s banner pattern is assembled from the class constants by the constant evaluator, turned into an automaton from its regex syntax tree (re._parser) and the inclusion '
        'L(^SSH-\\d\\.\\d+-[!-~]*( +[ -~]*)?$) <= L(RX_BANNER) and L(^SSH-\\d\\.\\d+$) <= L(RX_BANNER) is decided over printable ASCII on the product automaton (a shortest rejected banner is printed otherwise): a statement about all strings of the grammar; '
        'the pattern is anchored, has the four groups parse() indexes, and the protocol pattern has two digit groups; (b) parse() matches the SANITISED string while the validity flag is computed on the RAW one, both helpers use the same filter (evaluated at 31, 32, 126, 127), '
        'rejected characters become "?", and the non-conformance warning is printed iff the flag is false; (c) SSH_Socket.get_banner is interpreted on scripted peers (TCP segments, split and blank lines, unterminated tails, close / timeout): complete lines are tried in order and unmodified, the first that parses is returned at once and is not header text, the lines before it are the header, nothing behind it is consumed; decoding is total; '
        '(d) every documented family head (dropbear_, OpenSSH_/-, libssh-/_, RomSShell_, mpSSH_, Cisco-, tinyssh_, PuTTY_Release_, lancom) is served by a ^-anchored constant pattern (prefix automaton accepts the head) whose group 1 is the version handed to the constructor with that family\'s product; for the numeric families group 1 includes every dotted decimal version (automata inclusion); literal heads are pairwise prefix-disjoint. '
        'Not decided: that the captured parts equal the grammar\'s parts for every string, and parse/render round trips.')

SPECS = [(r'^SSH-\d\.\d+-[!-~]*( +[ -~]*)?$', 'SSH-<major>.<minor>-<software>[ <comments>]'), (r'^SSH-\d\.\d+$', 'SSH-<major>.<minor>')]


def class_const_expr(cls, name):
    for st in cls.body:
        if isinstance(st, ast.Assign):
            for t in st.targets:
                if isinstance(t, ast.Name) and t.id == name:
                    return st.value
                if isinstance(t, ast.Tuple):
                    for a, b in zip(t.elts, st.value.elts if isinstance(st.value, ast.Tuple) else []):
                        if isinstance(a, ast.Name) and a.id == name:
                            return b
    return None


def run(repo, rep, tier):
    rep.explanation = EXPL
    ce = ConstEnv(repo)
    bcls = repo.cls('banner', 'Banner')
    bp = repo.func('banner', 'Banner.parse')
    rep.saw(bp)

    # ---- rule 1: regex inclusion -----------------------------------------------------------------------------------------
    rxb = class_const_expr(bcls, 'RX_BANNER')
    rxpr = class_const_expr(bcls, 'RX_PROTOCOL')
    if rxb is None or rxpr is None:
        raise AnalysisError('anchor vanished: Banner.RX_BANNER / RX_PROTOCOL')
    if not (isinstance(rxb, ast.Call) and unparse(rxb.func) == 're.compile' and rxb.args):
        raise AnalysisError('RX_BANNER is not re.compile(<constant pattern>)')
    flags_ok = len(rxb.args) == 1 and not rxb.keywords
    if not flags_ok:
        fl = unparse(rxb.args[1]) if len(rxb.args) > 1 else unparse(rxb.keywords[0].value)
        if fl not in ('re.ASCII', 're.A'):
            raise AnalysisError('RX_BANNER compiled with flags %s that change the language (cannot decide)' % fl)
    try:
        pattern = ce.eval_in(rxb.args[0], 'banner', 'Banner')
    except NotLiteral as e:
        raise AnalysisError('RX_BANNER pattern is not constant: %s' % e)
    rep.samples.append({'rule': 'inclusion', 'RX_BANNER': pattern})
    try:
        impl = Lang(pattern)
    except Unsupported as e:
        raise AnalysisError('RX_BANNER uses a construct the automata component does not support: %s' % e)
    rep.extra['rx_banner_opcodes'] = impl.opcodes
    for spec, what in SPECS:
        ok, info = inclusion(Lang(spec), impl)
        rep.evals(info['product_states'] if ok else 1)
        rep.check('inclusion', 'every banner of the form %s is accepted by RX_BANNER' % what, ok, rxb,
                  'the banner %r has the documented form %s but Banner.RX_BANNER rejects it (it would be reported as header text / "did not receive banner")' % (info if not ok else '', what),
                  sample={'rule': 'inclusion', 'spec': spec, 'result': info if ok else {'counter_example': info}})
    rep.check('inclusion', 'RX_BANNER is anchored at both ends', pattern.startswith('^') and pattern.endswith('$'), rxb, 'RX_BANNER lost an anchor: %r' % pattern)
    rep.check('inclusion', 'RX_BANNER has exactly the four groups parse() indexes', impl.groups == 4, rxb, 'RX_BANNER has %d groups' % impl.groups)
    # non-banner lines must not be accepted: a line that does not start with SSH-<digit>.<digits> is outside the language
    neg, info = inclusion(impl, Lang(r'^SSH-\d\..*$'))
    rep.check('inclusion', 'everything RX_BANNER accepts starts with SSH-<digit>.', neg, rxb, 'RX_BANNER accepts %r, which is not an identification string' % (info if not neg else ''))
    # group 3 (software) excludes whitespace: software token language
    m3 = re.search(r'\(\[\^\\s\]\*\)', pattern)
    rep.check('inclusion', 'the software group is a run of non-space characters', m3 is not None, rxb, 'software group is no longer ([^\\s]*)')
    # RX_PROTOCOL: derived from _RXP by wrapping the digit runs in groups
    def deref(e):
        # a class-level name bound to an expression stands for that expression
        seen = 0
        while isinstance(e, ast.Name) and class_const_expr(bcls, e.id) is not None and seen < 4:
            e = class_const_expr(bcls, e.id)
            seen += 1
        return e
    ok = isinstance(rxpr, ast.Call) and unparse(rxpr.func) == 're.compile' and isinstance(deref(rxpr.args[0]), ast.Call) and unparse(deref(rxpr.args[0]).func) == 're.sub'
    proto_pattern = None
    if ok:
        sub = deref(rxpr.args[0])
        try:
            a, b, c = [ce.eval_in(x, 'banner', 'Banner') for x in sub.args[:3]]
            proto_pattern = re.sub(a, b, c)       # stdlib re applied to constants of the pattern algebra (not repo code)
        except NotLiteral:
            ok = False
    if ok and proto_pattern:
        pl = Lang('^' + proto_pattern + '$')
        rep.check('inclusion', 'RX_PROTOCOL has two groups, both digit runs', pl.groups == 2 and proto_pattern.count('(\\d') == 2, rxpr, 'RX_PROTOCOL is %r' % proto_pattern, sample={'rule': 'inclusion', 'RX_PROTOCOL': proto_pattern})
    else:
        rep.check('inclusion', 'RX_PROTOCOL is derived from the protocol sub-pattern', False, rxpr, 'RX_PROTOCOL construction not recognised')
    # ---- Banner.parse by interpretation (props/_bannerparse.py): for a family of identification lines (well-formed, multi-version, with comments, with characters
    # outside printable ASCII, look-alikes inside software / comments, malformed) the constructor receives the documented reading of the line: the smallest listed
    # protocol version of the version prefix only, the software token, the comments with blanks collapsed, and the conformance flag of the RAW line; the pattern is
    # applied to the sanitised copy; a line that does not match yields None
    from props import _bannerparse as _BP
    if not proto_pattern:
        raise AnalysisError('RX_PROTOCOL pattern not computable')
    pats = {'cls.RX_BANNER': pattern, 'Banner.RX_BANNER': pattern, 'cls.RX_PROTOCOL': proto_pattern, 'Banner.RX_PROTOCOL': proto_pattern}
    badp = {'inclusion': [], 'sanitise': []}
    for line in _BP.LINES:
        got = _BP.parse(repo, pats, line)
        want = _BP.expected(line)
        rep.evals()
        if got is not None and '<crash>' in got:
            badp['inclusion'].append('%r: parse() raises %s' % (line, got['<crash>']))
        elif got != want:
            rule = 'sanitise' if (got is None) != (want is None) or (got and want and got.get('valid_ascii') != want.get('valid_ascii')) else 'inclusion'
            badp[rule].append('%r is read as %r, the documented reading is %r' % (line, got, want))
    rep.check('inclusion', 'protocol (smallest version of the prefix only), software and comments are the documented reading of the line (%d lines)' % len(_BP.LINES), not badp['inclusion'], bp,
              'Banner.parse misreads an identification line -- %s' % (badp['inclusion'][0] if badp['inclusion'] else ''), stmt='banner reading')
    rep.check('sanitise', 'the pattern is matched against the sanitised copy, the validity flag is that of the raw line, a non-matching line yields None (%d lines)' % len(_BP.LINES), not badp['sanitise'], bp,
              'Banner.parse: %s' % (badp['sanitise'][0] if badp['sanitise'] else ''), stmt='banner sanitise / flag')
    # the two sanitising helpers of Utils, interpreted (helpers and the filter -- a lambda or a named predicate -- in place) on strings that exercise the code-point
    # classes < 32, 32..126, 127, > 127: is_print_ascii <=> every character in 32..126; to_print_ascii replaces exactly the other characters by "?"
    _BP.check_print_helpers(repo, rep, 'sanitise')
    outf = repo.func('ssh_audit', 'output')
    w = [n for n in walk_no_nested(outf) if isinstance(n, ast.Call) and unparse(n.func) == 'out.warn' and 'non-printable ASCII' in unparse(n)]
    ok = len(w) == 1
    if ok:
        # the complete path condition, as a truth table over {banner present, flag false, any other atom}: shown <=> banner present and flag false
        from sa.logic import eval_prop, text_atomizer
        conds = [(t, p) for t, p, k in path_condition(w[0]) if k in ('if', 'guard')]
        known = {'banner is not None': 'b', 'banner is None': '!b', 'not banner.valid_ascii': 'nv', 'banner.valid_ascii': '!nv', 'banner.valid_ascii is False': 'nv'}
        others = [unparse(t) for t, p in conds if unparse(t) not in known]
        table = dict((k, v.lstrip('!')) for k, v in known.items())
        for i, o in enumerate(others):
            table[o] = 'x%d' % i
        import itertools as _it
        badrow = None
        names = ['b', 'nv'] + ['x%d' % i for i in range(len(others))]

        def atom_value(text, val):
            v = val[table[text]]
            return (not v) if known.get(text, '').startswith('!') else v
        for bits in _it.product([False, True], repeat=len(names)):
            val = dict(zip(names, bits))
            got = all(atom_value(unparse(t), val) == p for t, p in conds)
            want = val['b'] and val['nv']
            rep.evals()
            if got != want and badrow is None:
                badrow = (dict(zip(['banner present', 'flag false'] + others, bits)), got)
        ok = badrow is None
    rep.check('sanitise', 'the non-conformance warning is shown iff a banner was received and its validity flag is false', ok, w[0] if w else outf,
              'the "banner contains non-printable ASCII" warning is %s' % (('%s when %s' % ('shown' if badrow[1] else 'not shown', badrow[0])) if w and not ok and badrow else 'missing or duplicated'))
    bl = [n for n in walk_no_nested(outf) if isinstance(n, ast.Assign) and unparse(n.targets[0]) == 'banner_line']
    rep.check('sanitise', 'the banner line prints the parsed banner', len(bl) == 1 and unparse(bl[0].value) == "'(gen) banner: {}'.format(banner)", bl[0] if bl else outf, 'banner line changed')

    # ---- rule 3: header/banner separation ------------------------------------------------------------------------------------
    gb = repo.func('ssh_socket', 'SSH_Socket.get_banner')
    rep.saw(gb)
    # get_banner by interpretation (props/_getbanner.py): scripted peers (TCP segments, then close or timeout) -> the returned (banner, header, error), the
    # lines that were tried as a banner and how much of the buffer was consumed, compared with the documented behaviour: complete lines are tried in
    # order and unmodified, blank lines skipped, the first line that parses is returned at once and is not header text, the non-empty lines before it are
    # the header in order, an unterminated tail is tried only once the peer has stopped, and nothing behind the banner line is consumed.
    from props import _getbanner as _gbm
    nscr = 0
    alias_seen = False
    for sdesc, segs in _gbm.SCRIPTS:
        for end in _gbm.ENDS:
            r_ = _gbm.run(repo, segs, end)
            want_ret, want_tried, want_pos = _gbm.expected(segs, end)
            rep.evals()
            nscr += 1
            problem = None
            if r_['crash']:
                problem = 'get_banner raises (%s)' % r_['crash']
            else:
                got_b, got_h, got_e = r_['ret']
                alias_seen = alias_seen or (isinstance(got_h, list) and got_h is r_.get('stored_header'))
                if r_['parsed'] != want_tried:
                    cut = [l for l in r_['parsed'] if l not in want_tried]
                    problem = 'the lines tried as a banner are %r, the peer sent the lines %r%s' % (r_['parsed'], want_tried, ' -- a line is parsed before it is complete (a banner that arrives in two TCP segments is read as its first half)' if any(w.startswith(c_) and w != c_ for c_ in cut for w in want_tried) else '')
                elif got_b != want_ret[0]:
                    problem = 'the banner returned is %r, expected %r' % (got_b, want_ret[0])
                elif list(got_h) != want_ret[1] if isinstance(got_h, list) else True:
                    problem = 'the header returned is %r, expected %r' % (got_h, want_ret[1])
                elif got_e != want_ret[2]:
                    problem = 'the error returned is %r, expected %r' % (got_e, want_ret[2])
                elif r_['consumed'] != want_pos:
                    problem = '%d byte(s) of the buffer are consumed, the banner line ends after %d (what follows is key exchange data)' % (r_['consumed'], want_pos)
                elif want_ret[0] is not None and r_.get('stored_banner') != want_ret[0]:
                    problem = 'the banner is returned but not kept: a second get_banner() call would read on'
            rep.check('separation', 'get_banner on a scripted peer: %s, then %s' % (sdesc, 'close' if end[1] is None else 'timeout'), problem is None, gb,
                      'get_banner, peer sends %s and then %s: %s' % (sdesc, 'closes' if end[1] is None else 'stalls', problem), stmt='get_banner model: %s' % sdesc)
    rep.floor('separation', 'scripted peers interpreted', nscr, 16)
    # get_banner hands out the header list object itself, and audit() keeps it until the report is written while the probes close and re-open the
    # socket: the list may only grow by the append above; every other in-place operation on it anywhere in the class (clear, pop, remove, del,
    # slice store, sort ...) would change the header text of a report whose banner was already read.  Resetting must rebind the attribute.
    scls = repo.cls('ssh_socket', 'SSH_Socket')
    returns_alias = alias_seen       # (model: the list get_banner returns is the object it keeps)
    hdr_edits = []
    # get_banner's own helpers: methods of the class that only get_banner (or another of its helpers) calls -- the banner loop may live in one
    methods = {x.name: x for x in scls.body if isinstance(x, ast.FunctionDef)}
    calls_of = {nm: {c_.func.attr for c_ in ast.walk(fn_) if isinstance(c_, ast.Call) and isinstance(c_.func, ast.Attribute) and isinstance(c_.func.value, ast.Name) and c_.func.value.id == 'self' and c_.func.attr in methods} for nm, fn_ in methods.items()}
    gbfam = [gb]
    grew_ = True
    while grew_:
        grew_ = False
        fam_names = {f_.name for f_ in gbfam}
        for nm, fn_ in methods.items():
            if fn_ in gbfam or not nm.startswith('_'):
                continue
            callers_ = {c_ for c_, cs in calls_of.items() if nm in cs}
            if callers_ and callers_ <= fam_names:
                gbfam.append(fn_)
                grew_ = True
    for fn in [x for x in scls.body if isinstance(x, ast.FunctionDef)]:
        for n in ast.walk(fn):
            if isinstance(n, ast.Call) and isinstance(n.func, ast.Attribute) and unparse(n.func.value) == 'self.__header' and n.func.attr in ('clear', 'pop', 'remove', 'insert', 'extend', 'sort', 'reverse', 'append'):
                if not (n.func.attr == 'append' and fn in gbfam):
                    hdr_edits.append((fn, n))
            if isinstance(n, ast.Delete) and any('self.__header' in unparse(t) for t in n.targets):
                hdr_edits.append((fn, n))
            if isinstance(n, (ast.Assign, ast.AugAssign)):
                tg = n.targets if isinstance(n, ast.Assign) else [n.target]
                if any(isinstance(t, ast.Subscript) and unparse(t.value) == 'self.__header' for t in tg) or (isinstance(n, ast.AugAssign) and unparse(n.target) == 'self.__header'):
                    hdr_edits.append((fn, n))
    if returns_alias:
        for fn, n in hdr_edits:
            rep.check('separation', 'the header list handed to the caller is not edited in place afterwards', False, n,
                      'SSH_Socket.%s edits the header list in place (%s), but get_banner() returned that very list to audit(): the header lines read before the banner vanish from (or change in) the report once the probes %s' % (fn.name, unparse(n)[:50], 'close the socket' if fn.name == 'close' else 'run'),
                      stmt='in-place edit of the returned header list in %s' % fn.name)
    rep.ob('separation', 'header list: only appended to in get_banner, reset by rebinding (%d other in-place edits)' % len(hdr_edits), not (returns_alias and hdr_edits)) if not (returns_alias and hdr_edits) else None
    rl = repo.func('readbuf', 'ReadBuf.read_line')
    # typed walk of read_line's method chain: bytes from the buffer's readline(); byte-level (r)strip() removes the line ending only
    # (ASCII blanks); after decode() the value is text and nothing may remove characters any more -- str.strip() also drops
    # \x1c-\x1f and every Unicode space, which would hide non-conforming trailing characters from the validity flag
    rets = [n for n in walk_no_nested(rl) if isinstance(n, ast.Return)]
    if len(rets) != 1 or len(rl.body) != 1:
        raise AnalysisError('ReadBuf.read_line is no longer a single return of a method chain')
    chain = []
    cur = rets[0].value
    while isinstance(cur, ast.Call) and isinstance(cur.func, ast.Attribute):
        chain.append(cur)
        cur = cur.func.value
    chain.reverse()
    if not chain or unparse(chain[0]) != 'self._buf.readline()':
        raise AnalysisError('ReadBuf.read_line does not start from self._buf.readline()')
    typ = 'bytes'
    stripped_eol = False
    for call in chain[1:]:
        m = call.func.attr
        if m == 'decode' and typ == 'bytes':
            args = [a.value for a in call.args if isinstance(a, ast.Constant)] + [k.value.value for k in call.keywords if isinstance(k.value, ast.Constant)]
            rep.check('separation', 'read_line decodes leniently (total)', any(a in ('replace', 'backslashreplace') for a in args), call, 'read_line decodes strictly or drops undecodable bytes (%s): invalid bytes raise or vanish instead of being shown as "?"' % unparse(call)[-40:])
            typ = 'str'
        elif m in ('rstrip', 'strip', 'lstrip') and typ == 'bytes':
            okarg = not call.args or (isinstance(call.args[0], ast.Constant) and isinstance(call.args[0].value, bytes) and set(call.args[0].value) <= set(b' \t\r\n'))
            rep.check('separation', 'byte-level strip removes line-ending blanks only', okarg and m != 'lstrip', call, 'read_line strips %s from the raw line' % unparse(call)[-40:])
            stripped_eol = stripped_eol or m in ('rstrip', 'strip')
        elif m in ('rstrip', 'strip', 'lstrip') and typ == 'str':
            okarg = bool(call.args) and isinstance(call.args[0], ast.Constant) and isinstance(call.args[0].value, str) and set(call.args[0].value) <= set('\r\n')
            rep.check('separation', 'no text-level strip between the socket and the validity flag', okarg, call,
                      'read_line strips the DECODED line (%s): str.%s() also removes the control characters \\x1c-\\x1f and every Unicode space, so a banner ending in such a character is shown without it and reported as conforming' % (unparse(call)[-30:], m))
            stripped_eol = stripped_eol or (okarg and m in ('rstrip', 'strip'))
        else:
            rep.check('separation', 'read_line applies only decode and line-ending strip', False, call, 'read_line applies .%s() to the raw line before the banner is validated' % m)
    if not any(f.rule == 'separation' and 'read_line' in f.message for f in rep.findings):
        rep.check('separation', 'read_line yields text and strips the line ending', typ == 'str' and stripped_eol, rl,       'read_line returns %s%s' % (typ, '' if stripped_eol else ' with the line ending left in place'))
    hp = [n for n in walk_no_nested(outf) if isinstance(n, ast.Call) and unparse(n.func) == 'out.info' and '(gen) header' in unparse(n)]
    ok = len(hp) == 1 and "'\\n'.join(header)" in unparse(hp[0]) and any(unparse(t) == 'len(header) > 0' and p for t, p, k in path_condition(hp[0]))
    rep.check('separation', 'header lines are reported as header text', ok, hp[0] if hp else outf, 'header output changed')
    au = repo.func('ssh_audit', 'audit')
    gbv = [n for n in walk_no_nested(au) if isinstance(n, ast.Assign) and isinstance(n.value, ast.Call) and unparse(n.value.func) == 's.get_banner']
    rep.check('separation', 'audit takes (banner, header, error) from get_banner', len(gbv) == 1 and unparse(gbv[0].targets[0]) == '(banner, header, err)', gbv[0] if gbv else au, 'get_banner unpacking changed')

    # ---- rule 4: product table ---------------------------------------------------------------------------------------------------
    sp = repo.func('software', 'Software.parse')
    rep.saw(sp)
    from props import _products as P
    _sp, pfams = P.families(repo)
    fams = [(f.pattern, f.node) for f in pfams]
    for n in sp.body:
        if isinstance(n, ast.Assign) and unparse(n.targets[0]) == 'mx' and isinstance(n.value, ast.Call) and unparse(n.value.func).startswith('re.') and unparse(n.value.func) != 're.match':
            rep.check('products', 'product patterns are applied with re.match (anchored at the start of the software string)', False, n, 'product recognition uses %s: the pattern can match in the middle of another product\'s string' % unparse(n.value.func))
    rep.floor('products', 'recognised product patterns', len(fams), 6)
    heads = []
    for f in pfams:
        pat, n = f.pattern, f.node
        rep.check('products', 'pattern %r is anchored at the start' % pat, pat.startswith('^'), n, 'product pattern %r is not ^-anchored' % pat)
        subj = unparse(n.value.args[1])
        rep.check('products', 'pattern %r is matched against the software string' % pat, subj == 'software', n, 'pattern matched against %s' % subj)
        m = re.match(r'^\^([A-Za-z][A-Za-z_]*)', pat)
        heads.append(m.group(1) if m else pat)
        nxt = f.block
        ok = isinstance(nxt, ast.If) and unparse(nxt.test) in ('mx is not None', 'mx') and isinstance(nxt.body[-1], ast.Return) and isinstance(nxt.body[-1].value, ast.Call) and unparse(nxt.body[-1].value.func) == 'cls' \
            and unparse(nxt.body[-1].value.args[2]) == 'mx.group(1)'
        rep.check('products', 'family %r: group 1 is the version passed to the constructor' % pat, ok, nxt or n, 'family %r no longer passes mx.group(1) as version' % pat)
    for i in range(len(heads)):
        for j in range(i + 1, len(heads)):
            a, b = heads[i], heads[j]
            same_family = (a.rstrip('_-') == b.rstrip('_-')) or (a.startswith('libssh') and b.startswith('libssh'))
            rep.check('products', 'literal heads %r / %r are prefix-disjoint (order of the chain cannot matter)' % (a, b), same_family or not (a.startswith(b) or b.startswith(a)), fams[j][1], 'product patterns %r and %r overlap' % (fams[i][0], fams[j][0]))
    # every documented family head is served by a pattern, labelled as documented, and (numeric families) group 1 can hold the whole dotted version
    nserved = 0
    for head, label, numeric in P.SPEC_HEADS:
        f = P.serving(pfams, head)
        rep.check('products', 'software strings starting with %r are recognised by a product pattern' % head, f is not None, sp, 'no product pattern recognises software strings starting with %r any more' % head, stmt='recognition of %s' % head)
        if f is None:
            continue
        nserved += 1
        if label is not None:
            rep.check('products', 'family %s is labelled %s' % (head, label), f.block is not None and label in unparse(f.block), f.block or f.node, 'family %s no longer labelled %s' % (head, label), stmt='label of %s' % head)
        if numeric:
            ok, cex = P.captures_dotted(f)
            rep.check('products', 'version group of %r can hold every dotted decimal version (for %r)' % (f.pattern, head), ok, f.node,
                      'the version extracted from a %r software string is not the version in the string: group 1 of %r cannot hold %r' % (head, f.pattern, cex if not ok else ''), stmt='version capture for %s' % head)
            rep.evals()
            # a tail (patch level) after the version must not prevent recognition
            if f.end_anchored:
                ok3, cex3 = inclusion(Lang(r'([^0-9.].*)?'), f.post)
                rep.check('products', 'pattern %r accepts any patch-level tail after the version' % f.pattern, ok3, f.node, 'pattern %r rejects the tail %r after the version' % (f.pattern, cex3 if not ok3 else ''), stmt='tail for %s' % head)
    rep.samples.append({'rule': 'products', 'heads_served': nserved, 'patterns': [f.pattern for f in pfams]})
    sw = [n for n in walk_no_nested(sp) if isinstance(n, ast.Assign) and unparse(n.targets[0]) == 'software']
    rep.check('products', 'the product table is applied to the banner\'s software string', len(sw) == 1 and unparse(sw[0].value) == 'str(banner.software)', sw[0] if sw else sp, 'software source changed')
    rep.check('products', 'unknown software yields None', isinstance(sp.body[-1], ast.Return) and unparse(sp.body[-1].value) == 'None', sp, 'fallback return changed')
