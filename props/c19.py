"""C19 -- a standard audit's footprint on the target is small and bounded."""
import ast

from sa.core import AnalysisError, unparse, walk_no_nested, stmt_text, call_name, bind_args, attr_chain, func_id, get_kw
from sa.logic import path_condition, excludes
from sa.cfg import CFG, describe_path
from sa.callgraph import CallGraph
from sa.consteval import ConstEnv

EXPL = ('Decides who may open connections, send key-exchange computation requests or start flood workers, and under which guards: (1) the DoS attack and the interactive rate test are reachable only '
        'under aconf.dheat / aconf.conn_rate_test_enabled, fields that only the --dheat / --conn-rate-test options set; the standard rate test is skipped for --skip-rate-test and client audits and runs with the constants (1.5 s, 38, 3); '
        '(2) the functions that write KEXDH_INIT / GEX_REQUEST / GEX_INIT are called only from the host-key and group-exchange probes (and the explicit DoS mode), and on the CFG every path from a send to the next loop iteration or a normal '
        'return passes a close(): one request per connection; (3) a static ceiling on connection-opening calls per scan, computed from literal loop ranges (initial + SSH-1 retry + |HOST_KEY_TYPES| + 2 x 9 GEX probes); loops around a connect iterate '
        'literal tables, never a peer-controlled list; (4) the rate test creates sockets only under a bound that counts every creation; (5) connections opened by the probes and the rate test are closed on all normal paths, and SSH_Socket.close/__del__ '
        'close the socket and every listener. Not decided: run-time counts on the wire and behaviour on exceptional exits (C09).')

KEX_MSGS = ('Protocol.MSG_KEXDH_INIT', 'Protocol.MSG_KEXDH_GEX_REQUEST', 'Protocol.MSG_KEXDH_GEX_INIT')
CEILING = 1 + 1 + 17 + 18


def run(repo, rep, tier):
    rep.explanation = EXPL
    ce = ConstEnv(repo)
    cg = CallGraph(repo)
    sym = cg.sym
    au = repo.func('ssh_audit', 'audit')
    rep.saw(au)

    # ---- rule 1: explicit-request features ----------------------------------------------------------------------------
    dh_cls = repo.cls('dheat', 'DHEat')
    dangerous = {}
    for nm in ('run', '_run', 'worker_process', '_worker_process', '__init__', 'get_largest_gex_modulus', 'analyze_gex', 'make_dh_kexinit', 'make_gex_request'):
        if repo.has_func('dheat', 'DHEat.' + nm):
            dangerous[nm] = repo.func('dheat', 'DHEat.' + nm)
    rep.floor('explicit', 'DoS attack entry points', len(dangerous), 5)
    for nm, f in dangerous.items():
        for caller, site, kind in cg.callers(f):
            cid = func_id(caller)
            ok = cid.startswith('dheat:DHEat.') or cid == 'ssh_audit:audit'
            rep.check('explicit', 'DHEat.%s is called only from the DoS module or audit(): %s' % (nm, cid), ok, site, 'DoS attack code DHEat.%s is called from %s' % (nm, cid))
            if cid == 'ssh_audit:audit':
                conds = [(unparse(t)[:60], p) for t, p, k in path_condition(site)]
                rep.check('explicit', 'audit reaches DHEat.%s only under `aconf.dheat is not None`' % nm, excludes(path_condition(site), 'aconf.dheat is not None', False), site, 'the DoS attack (DHEat.%s) is reachable in a standard audit: guards %s' % (nm, conds))
    # multiprocessing only in the DoS module's _run
    for m in repo.modules.values():
        for n in ast.walk(m.tree):
            if isinstance(n, ast.Call) and unparse(n.func) in ('multiprocessing.Process', 'Process', 'multiprocessing.Pool'):
                ok = m.name == 'dheat' and n._func is not None and n._func.name == '_run'
                rep.check('explicit', 'flood workers are spawned only by DHEat._run', ok, n, 'process spawn in %s' % func_id(n))
    # rate test call sites in audit
    rts = [n for n in walk_no_nested(au) if isinstance(n, ast.Call) and call_name(n) == 'DHEat.dh_rate_test']
    rep.floor('explicit', 'rate test call sites in audit', len(rts), 2)
    std = []
    for c in rts:
        conds = [(unparse(t), p) for t, p, k in path_condition(c)]
        if ('aconf.conn_rate_test_enabled', True) in conds:
            rep.ob('explicit', 'interactive rate test only under aconf.conn_rate_test_enabled', True)
        else:
            std.append(c)
            pcs = path_condition(c)
            okg = excludes(pcs, 'aconf.client_audit is False', False) and excludes(pcs, 'aconf.skip_rate_test', True) and excludes(pcs, 'aconf.dheat is not None', True) and excludes(pcs, 'aconf.conn_rate_test_enabled', True)
            rep.check('explicit', 'standard rate test skipped for client audits, --skip-rate-test and the explicit modes', okg, c, 'standard rate test is not guarded by client_audit/skip_rate_test/explicit-mode tests')
            args = [unparse(a) for a in c.args[3:]]
            rep.check('explicit', 'standard rate test limits are (1.5 s, 38 connections, 3 sockets)', args == ['1.5', '38', '3'], c, 'rate test limits are %s' % args, sample={'rule': 'explicit', 'rate_test_limits': args})
    rep.check('explicit', 'exactly one standard rate test call', len(std) == 1, au, '%d unguarded rate test calls' % len(std))
    for caller, site, kind in cg.callers(repo.func('dheat', 'DHEat.dh_rate_test')) + cg.callers(repo.func('dheat', 'DHEat._dh_rate_test')):
        rep.check('explicit', 'rate test only started by audit (via dh_rate_test)', func_id(caller) in ('ssh_audit:audit', 'dheat:DHEat.dh_rate_test'), site, 'rate test called from %s' % func_id(caller))
    # stores to the enabling fields
    for m in repo.modules.values():
        for n in ast.walk(m.tree):
            if isinstance(n, ast.Attribute) and isinstance(n.ctx, ast.Store) and n.attr in ('dheat', 'conn_rate_test', 'conn_rate_test_enabled'):
                st = n._parent
                fid = func_id(n)
                val = unparse(st.value) if isinstance(st, (ast.Assign, ast.AnnAssign)) and st.value is not None else '?'
                conds = [(unparse(t), p) for t, p, k in path_condition(st)]
                if fid == 'auditconf:AuditConf.__init__':
                    ok = (n.attr == 'dheat' and val == 'None') or (n.attr == 'conn_rate_test_enabled' and val == 'False') or (n.attr == 'conn_rate_test')
                elif fid == 'auditconf:AuditConf.__setattr__':
                    ok = n.attr == 'conn_rate_test_enabled' and any(t == "name == 'conn_rate_test'" and p for t, p in conds)
                elif fid == 'ssh_audit:process_commandline':
                    ok = ('argument.%s is not None' % n.attr, True) in conds and val == 'argument.%s' % n.attr
                else:
                    ok = False
                rep.check('explicit', 'field %s set only from its command-line option: %s' % (n.attr, fid), ok, st, 'aconf.%s is set to %s in %s under %s' % (n.attr, val, fid, conds))
    rt = repo.func('dheat', 'DHEat._dh_rate_test')
    rep.saw(rt)
    inter = [n for n in walk_no_nested(rt) if isinstance(n, ast.Assign) and unparse(n) == 'interactive = True']
    ok = len(inter) == 1 and [(unparse(t), p) for t, p, k in path_condition(inter[0])] == [('aconf.conn_rate_test_enabled', True)]
    rep.check('explicit', 'the unbounded interactive rate test needs aconf.conn_rate_test_enabled', ok, inter[0] if inter else rt, 'interactive mode switch changed')
    mc = [n for n in walk_no_nested(rt) if isinstance(n, ast.Assign) and unparse(n.targets[0]) in ('max_connections', 'concurrent_sockets')]
    for n in mc:
        conds = [(unparse(t), p) for t, p, k in path_condition(n)]
        rep.check('explicit', 'limits are overridden only in interactive mode: %s' % unparse(n)[:50], ('aconf.conn_rate_test_enabled', True) in conds, n, 'rate test limit overridden outside the interactive mode')

    # ---- rule 2: senders of KEX computation requests ---------------------------------------------------------------------
    senders = []
    for (m, q), f in repo.all_funcs().items():
        for n in walk_no_nested(f):
            if isinstance(n, ast.Call) and isinstance(n.func, ast.Attribute) and n.func.attr == 'write_byte' and n.args:
                a = n.args[0]
                txt = unparse(a)
                if txt in KEX_MSGS or (isinstance(a, ast.Name) and a.id == 'init_msg'):
                    senders.append(f)
    senders = list(dict.fromkeys(senders))
    rep.floor('senders', 'functions that write a KEX init/request message', len(senders), 6)
    allowed_callers = {'hostkeytest:HostKeyTest.perform_test', 'gextest:GEXTest._send_init', 'kexdh:KexGroupExchange.send_init', 'kexdh:KexGroupExchange.send_init_gex'}
    for f in senders:
        rep.saw(f)
        if f._module.name == 'dheat':
            continue
        rep.check('senders', 'KEX request writer %s lives in kexdh' % func_id(f), f._module.name == 'kexdh', f, 'KEX request written outside the kexdh module: %s' % func_id(f))
        for caller, site, kind in cg.callers(f):
            cid = func_id(caller)
            ok = cid in allowed_callers or cid.startswith('dheat:DHEat.')
            rep.check('senders', '%s is called only from the probes: %s' % (f._qualname, cid), ok, site, 'key-exchange computation request sent from %s' % cid)
    # one request per connection: perform_test
    pt = repo.func('hostkeytest', 'HostKeyTest.perform_test')
    rep.saw(pt)

    def is_call(st, pred):
        if isinstance(st, (ast.With, ast.Try, ast.ExceptHandler, ast.FunctionDef, ast.ClassDef)):
            return False
        tgt = st.test if isinstance(st, (ast.If, ast.While)) else (st.iter if isinstance(st, ast.For) else st)
        return any(isinstance(n, ast.Call) and pred(n) for n in walk_no_nested(tgt))
    # the host-key probe interpreted along its no-exception path (props/_hostkey_rating.probe): for a server offering k probe-able key types the socket sees
    # exactly k times connect, one key-exchange init, close -- in that order; repeated or unknown names in the peer's list add nothing
    from props import _hostkey_rating as _HK
    hk_consts = _HK.class_consts(repo, ce, 'hostkeytest', 'HostKeyTest')
    for offered, n_expected, what in ((['ssh-ed25519'], 1, 'one key type'), (['ssh-ed25519', 'ssh-rsa', 'rsa-sha2-512', 'ecdsa-sha2-nistp256'], 3, 'four names, two of one family'),
                                      (['ssh-ed25519', 'ssh-ed25519', 'ssh-ed25519', 'made-up-type', 'made-up-type-2'], 1, 'a repetitive list with unknown names'), ([], 0, 'no host keys')):
        meas = [(t, False, 3072 if 'rsa' in t else 256, '', 0) for t in ('ssh-rsa', 'rsa-sha2-512', 'ssh-ed25519', 'ecdsa-sha2-nistp256')]
        ev_ = _HK.probe(repo, hk_consts, meas, offered=offered)
        rep.evals()
        log = [x for x in ev_['log']]
        lead = 0
        while lead < len(log) and log[lead] == 'close':
            lead += 1           # closing the inherited connection first is fine
        rest = log[lead:]
        ok = rest == ['connect', 'init', 'close'] * n_expected
        rep.check('senders', 'host-key probe (%s): every connection carries exactly one key-exchange request and is closed before the next' % what, ok, pt,
                  'host-key probe against a server offering %s performs %s (expected %d x connect, init, close): a second key-exchange request on one connection, a connection left open, or connections driven by the peer\'s list' % (offered, rest, n_expected),
                  stmt='host-key probe socket protocol: %s' % what)
    si = repo.func('gextest', 'GEXTest._send_init')
    rep.saw(si)
    c2 = CFG(si)
    sends2 = c2.stmts_matching(lambda st: is_call(st, lambda n: unparse(n.func) == 'kex_group.send_init_gex'))
    closes2 = c2.stmts_matching(lambda st: is_call(st, lambda n: unparse(n.func) == 's.close'))
    rep.floor('senders', 'send sites in _send_init', len(sends2), 1)
    st2 = set()
    for s in sends2:
        st2 |= set(s.succ)
    p = c2.find_path(list(st2), [c2.exit, c2.raise_exit], avoid=closes2)
    rep.check('senders', 'GEX probe: every exit after a request closes the connection (finally)', p is None, sends2[0].stmt, 'GEX probe can return with the connection open', witness=describe_path(p) if p else None)
    rep.check('senders', 'GEX probe sends one request per call', len(sends2) == 1 and not [k for t, pp, k in path_condition(sends2[0].stmt) if k in ('for', 'while')], sends2[0].stmt, 'several GEX requests per connection')
    # send_init_gex = one request + one init as one exchange
    sg = repo.func('kexdh', 'KexGroupExchange.send_init_gex')
    nsend = [n for n in walk_no_nested(sg) if isinstance(n, ast.Call) and unparse(n.func) == 's.send_packet']
    rep.check('senders', 'send_init_gex sends exactly one GEX request (the INIT follows through KexDH.send_init)', len(nsend) == 1 and not [k for t, pp, k in path_condition(nsend[0]) if k in ('for', 'while')], sg, 'send_init_gex sends %d packets' % len(nsend))

    # ---- rule 3: static connection bound -----------------------------------------------------------------------------------
    hkt = ce.lookup('hostkeytest', 'HostKeyTest.HOST_KEY_TYPES')
    run_hk = repo.func('hostkeytest', 'HostKeyTest.run')
    calls = [n for n in walk_no_nested(run_hk) if isinstance(n, ast.Call) and call_name(n) == 'HostKeyTest.perform_test']
    ok = len(calls) == 1 and unparse(bind_args(calls[0], pt).get('host_key_types')) == 'HostKeyTest.HOST_KEY_TYPES' and not [k for t, pp, k in path_condition(calls[0]) if k in ('for', 'while')]
    rep.check('bound', 'the host-key probe iterates the literal HOST_KEY_TYPES table, once', ok, calls[0] if calls else run_hk, 'host-key probe iterates %s' % (unparse(bind_args(calls[0], pt).get('host_key_types')) if calls else '?'))
    # The loops of perform_test from whose body a connection can be opened (directly, or through a helper that reaches SSH_Socket.connect) must iterate the
    # literal table (the parameter the only caller binds to it), possibly filtered -- never a list the peer supplied: on a failing probe the type is not
    # marked as handled, so a repetitive peer list would open one connection per repetition.
    sock_connect = repo.func('ssh_socket', 'SSH_Socket.connect')

    def opens_connection(loop):
        for st in loop.body:
            for n in ast.walk(st):
                if isinstance(n, ast.Call):
                    if isinstance(n.func, ast.Attribute) and n.func.attr == 'connect' and unparse(n.func.value) in ('s', 'sock', 'self'):
                        return True
                    for e in cg.edges.get(pt, []):
                        if e[1] is n and (e[0] is sock_connect or sock_connect in cg.reachable([e[0]])):
                            return True
        return False

    def bound_source(e):
        if isinstance(e, ast.Name) and e.id == 'host_key_types':
            return 'table'
        if unparse(e) == 'HostKeyTest.HOST_KEY_TYPES':
            return 'table'
        if isinstance(e, ast.Call) and isinstance(e.func, ast.Name) and e.func.id in ('list', 'sorted', 'tuple', 'set', 'reversed') and len(e.args) == 1:
            return bound_source(e.args[0])
        if isinstance(e, ast.Call) and isinstance(e.func, ast.Attribute) and e.func.attr in ('keys', 'items') and not e.args:
            return bound_source(e.func.value)
        if isinstance(e, (ast.ListComp, ast.GeneratorExp, ast.SetComp)) and len(e.generators) == 1:
            return bound_source(e.generators[0].iter)
        if any(isinstance(x, ast.Name) and x.id in ('server_kex', 'kex', 'payload') for x in ast.walk(e)):
            return 'peer'
        return 'unknown'
    probe_loops = [n for n in walk_no_nested(pt) if isinstance(n, ast.For) and opens_connection(n)]
    rep.floor('bound', 'loops of perform_test that open connections', len(probe_loops), 1)
    for lp in probe_loops:
        src = bound_source(lp.iter)
        if src == 'unknown':
            raise AnalysisError('host-key probe loop iterates %s: cannot tell whether it is bounded by the literal table' % unparse(lp.iter))
        rep.check('bound', 'host-key probe loop is bounded by the literal table of key types, not by a peer-supplied list', src == 'table', lp,
                  'the host-key probe opens one connection per element of %s: the number of connections is chosen by the peer (a long or repetitive host-key list makes the audit open as many connections), not bounded by the %d-entry table' % (unparse(lp.iter), len(hkt)),
                  stmt='host-key probe loop source')
    # exceptional paths (the interpretation model above follows the no-exception path only): on EVERY path of the control-flow graph, exception edges included,
    # a key-exchange request is followed by a close of the connection before the loop head is reached again or the probe returns
    c = CFG(pt)
    sends = c.stmts_matching(lambda st: is_call(st, lambda n: unparse(n.func) == 'kex_group.send_init'))
    closes = c.stmts_matching(lambda st: is_call(st, lambda n: unparse(n.func) == 's.close'))
    rep.floor('senders', 'send sites in perform_test', len(sends), 1)
    heads = [h for lp in probe_loops for h in c.nodes_of(lp, kinds=('test',))]
    starts = set()
    for s_ in sends:
        starts |= {x for x in s_.succ if x.kind not in ('raise',)}
    p_ = c.find_path(list(starts), heads + [c.exit], avoid=closes)
    rep.check('senders', 'host-key probe: after a KEX request the connection is closed before the next type is probed or the probe returns (all paths, exceptions included)', p_ is None, sends[0].stmt,
              'a second key-exchange request can be sent on the same connection (no close between sends)', witness=describe_path(p_) if p_ else None)
    whiles = [n for n in walk_no_nested(pt) if isinstance(n, ast.While) and opens_connection(n)]
    rep.check('bound', 'no while loop opens probe connections', not whiles, whiles[0] if whiles else pt, 'connections opened inside a while loop in perform_test')
    hk_bound = len(hkt)
    gr = repo.func('gextest', 'GEXTest.run')
    rep.saw(gr)
    sis = [n for n in walk_no_nested(gr) if isinstance(n, ast.Call) and call_name(n) == 'GEXTest._send_init']
    gex_calls = 0
    for n in sis:
        mult = 1
        for t, pp, k in path_condition(n):
            if k == 'for':
                if isinstance(t, (ast.List, ast.Tuple)) and all(isinstance(e, ast.Constant) for e in t.elts):
                    mult *= len(t.elts)
                elif unparse(t) == 'GEX_ALGS.items()':
                    pass
                else:
                    rep.check('bound', 'GEX probe loops iterate literal tables', False, n, 'GEX probe loop iterates %s (not a literal table)' % unparse(t))
            if k == 'while':
                rep.check('bound', 'no while loop around a GEX probe', False, n, 'GEX probe inside a while loop')
        gex_calls += mult
    rep.floor('bound', '_send_init call sites in GEXTest.run', len(sis), 2)
    gex_algs = None
    for n in walk_no_nested(gr):
        if isinstance(n, ast.Assign) and unparse(n.targets[0]) == 'GEX_ALGS' and isinstance(n.value, ast.Dict):
            gex_algs = len(n.value.keys)
    outer = [n for n in walk_no_nested(gr) if isinstance(n, ast.For) and unparse(n.iter) == 'GEX_ALGS.items()']
    if not (len(outer) == 1 and gex_algs is not None):
        # the outer loop is not the recognised `for ... in GEX_ALGS.items()` over a literal dict: a loop over something the peer supplies is a violation,
        # any other respelling cannot be counted by this rule
        loops_ = [n for n in walk_no_nested(gr) if isinstance(n, ast.For) and any(isinstance(x, ast.Call) and call_name(x) == 'GEXTest._send_init' for x in ast.walk(n))]
        for lp_ in loops_:
            if any(isinstance(x, ast.Name) and x.id in ('kex', 'server_kex', 'payload') for x in ast.walk(lp_.iter)) and not (isinstance(lp_.iter, (ast.Tuple, ast.List))):
                rep.check('bound', 'GEX probe loops are bounded by literal tables, not by a peer-supplied list', False, lp_, 'the group-exchange probe opens connections per element of %s: the number of connections is chosen by the peer' % unparse(lp_.iter)[:80], stmt='GEX probe loop source')
        if not rep.findings or not any(f.rule == 'bound' and 'GEX probe loop source' in str(f.key()) for f in rep.findings):
            raise AnalysisError('GEX probe outer loop is not the recognised loop over the literal GEX_ALGS table: the static connection ceiling cannot be computed')
    rc = repo.func('gextest', 'GEXTest.reconnect')
    rconn = [n for n in walk_no_nested(rc) if isinstance(n, ast.Call) and unparse(n.func) == 's.connect']
    ok = len(rconn) == 1 and not [k for t, pp, k in path_condition(rconn[0]) if k in ('for', 'while')]
    rep.check('bound', 'reconnect opens at most one connection', ok, rc, 'reconnect has %d connect sites / loops' % len(rconn))
    recs = [n for n in walk_no_nested(si) if isinstance(n, ast.Call) and call_name(n) == 'GEXTest.reconnect']
    rep.check('bound', '_send_init reconnects once', len(recs) == 1 and not [k for t, pp, k in path_condition(recs[0]) if k in ('for', 'while')], si, '_send_init reconnects %d times' % len(recs))
    gex_bound = (gex_algs or 0) * gex_calls
    ac = [n for n in walk_no_nested(au) if isinstance(n, ast.Call) and unparse(n.func) == 's.connect']
    retry = [n for n in walk_no_nested(au) if isinstance(n, ast.Call) and call_name(n) == 'audit']
    ok = len(ac) == 1 and not [k for t, pp, k in path_condition(ac[0]) if k in ('for', 'while')] and len(retry) == 1 and unparse(retry[0].args[2]) == '1'
    if ok:
        from sa.logic import implied_atoms as _ia
        atoms = {(unparse(t), pp) for t, pp in _ia(path_condition(retry[0]))}
        ok = ('sshv == 2', True) in atoms or ('sshv != 2', False) in atoms or ('sshv == 1', False) in atoms
    rep.check('bound', 'audit opens one connection, plus one SSH-1 retry that cannot recurse further', ok, ac[0] if ac else au, 'initial connection / retry structure changed')
    total = 1 + 1 + hk_bound + gex_bound
    rep.extra['static_connection_ceiling'] = {'initial': 1, 'ssh1_retry': 1, 'host_key_probe': hk_bound, 'gex_probe': gex_bound, 'total': total, 'rate_test': 'see rule ratetest'}
    rep.check('bound', 'static ceiling on probe connections: %d <= %d' % (total, CEILING), total <= CEILING, gr, 'static connection ceiling grew to %d (initial 1 + retry 1 + host keys %d + GEX %d)' % (total, hk_bound, gex_bound),
              sample={'rule': 'bound', 'ceiling': total})
    # no other caller of the probes
    for fq in (('hostkeytest', 'HostKeyTest.run'), ('gextest', 'GEXTest.run')):
        f = repo.func(*fq)
        cs = cg.callers(f)
        ok = [func_id(a) for a, s, k in cs] == ['ssh_audit:audit'] and not [k for a, s, k0 in cs for t, pp, k in path_condition(s) if k in ('for', 'while')]
        rep.check('bound', '%s runs once per audit' % fq[1], ok, f, '%s callers: %s' % (fq[1], [func_id(a) for a, s, k in cs]))

    # ---- rule 4: rate-test bound ---------------------------------------------------------------------------------------------
    creates = [n for n in walk_no_nested(rt) if isinstance(n, ast.Call) and unparse(n.func) == 'socket.socket']
    rep.floor('ratetest', 'socket creations in the rate test', len(creates), 1)
    for cr in creates:
        wl = cr
        while wl is not None and not isinstance(wl, ast.While):
            wl = wl._parent
        if wl is None:
            raise AnalysisError('rate test socket creation is not inside a while loop')
        guard_names = {x.id for x in ast.walk(wl.test) if isinstance(x, ast.Name)}
        incs = [n for n in wl.body if isinstance(n, ast.AugAssign) and isinstance(n.op, ast.Add) and isinstance(n.target, ast.Name)]
        counted = {n.target.id for n in incs}
        grows = 'len(socket_dict)' in unparse(wl.test)
        ok = bool(guard_names & counted)
        rep.check('ratetest', 'socket creation is bounded by a counter incremented on every creation', ok, wl,
                  'the creation loop is bounded by `%s`, but the only counter incremented per creation is %s: a server that accepts and closes (or answers anything but "SSH-") is re-dialled as fast as the loop spins until the deadline'
                  % (unparse(wl.test), sorted(counted)), sample={'rule': 'ratetest', 'guard': unparse(wl.test), 'per_creation_counters': sorted(counted)})
    outer_w = [n for n in rt.body if isinstance(n, ast.While)]
    ok = False
    if outer_w:
        brk = [n for n in outer_w[0].body if isinstance(n, ast.If) and any(isinstance(x, ast.Break) for x in n.body)]
        ok = any('now - start_timer >= max_time' in unparse(b.test) for b in brk)
    rep.check('ratetest', 'the rate test loop has a wall-clock deadline in non-interactive mode', ok, outer_w[0] if outer_w else rt, 'rate test deadline test changed')
    nb = [n for n in walk_no_nested(rt) if isinstance(n, ast.Call) and unparse(n.func) == 's.setblocking']
    rep.check('ratetest', 'rate test sockets are non-blocking', len(nb) >= 1 and unparse(nb[0].args[0]) == 'False', nb[0] if nb else rt, 'rate test sockets may block')
    sel = [n for n in walk_no_nested(rt) if isinstance(n, ast.Call) and unparse(n.func) == 'select.select']
    rep.check('ratetest', 'select() carries a timeout', len(sel) == 1 and len(sel[0].args) == 4, sel[0] if sel else rt, 'select without timeout')
    # no data is sent in the rate test
    sends_rt = [n for n in walk_no_nested(rt) if isinstance(n, ast.Call) and isinstance(n.func, ast.Attribute) and n.func.attr in ('send', 'sendall', 'send_packet', 'write_byte')]
    rep.check('ratetest', 'the rate test sends nothing (no key-exchange request)', not sends_rt, sends_rt[0] if sends_rt else rt, 'rate test sends data')

    # ---- rule 5: close pairing -------------------------------------------------------------------------------------------------
    drain = [n for n in rt.body if isinstance(n, ast.While) and n is not (outer_w[0] if outer_w else None)]
    ok = False
    if drain:
        d = drain[-1]
        ok = any(isinstance(x, ast.If) and unparse(x.test) == 'len(socket_dict) == 0' and any(isinstance(y, ast.Break) for y in x.body) for x in d.body) and any('_close_socket(socket_dict' in unparse(x) for x in d.body)
    rep.check('close', 'the rate test drains and closes every remaining socket before returning', ok, drain[-1] if drain else rt, 'final drain of the rate test changed')
    cs_ = repo.func('dheat', 'DHEat._dh_rate_test._close_socket')
    txt = unparse(cs_)
    rep.check('close', 'rate test _close_socket closes the socket and forgets it', 's.close()' in txt and 'del socket_dict[s]' in txt, cs_, '_close_socket changed')
    scl = repo.func('ssh_socket', 'SSH_Socket.close')
    sdel = repo.func('ssh_socket', 'SSH_Socket.__del__')
    cln = repo.func('ssh_socket', 'SSH_Socket.__cleanup')
    rep.check('close', 'SSH_Socket.close and __del__ run the cleanup', 'self.__cleanup()' in unparse(scl) and 'self.__cleanup()' in unparse(sdel), scl, 'close/__del__ no longer call __cleanup')
    t = unparse(cln)
    rep.check('close', 'cleanup closes the connection and every listening socket', 'self._close_socket(self.__sock)' in t and 'for sock in self.__sock_map.values()' in t and 'self.__sock = None' in t, cln, '__cleanup changed')
    csk = repo.func('ssh_socket', 'SSH_Socket._close_socket')
    rep.check('close', '_close_socket shuts down and closes', 's.close()' in unparse(csk), csk, '_close_socket no longer closes')
    # GEXTest.run and perform_test start from a closed socket
    for f in (pt, gr):
        first_close = [n for n in f.body if isinstance(n, ast.If) and unparse(n.test) == 's.is_connected()' and 's.close()' in unparse(n)]
        rep.check('close', '%s closes the inherited connection first' % f.name, len(first_close) == 1, f, '%s no longer closes the inherited connection' % f.name)
    # observation: early returns of perform_test after a failed KEXINIT parse leave the socket to the next phase
    rets = [r for r in walk_no_nested(pt) if isinstance(r, ast.Return)]
    open_rets = []
    for r in rets:
        blk = r._parent.body if r in getattr(r._parent, 'body', []) else []
        if not any('s.close()' in unparse(x) for x in blk) and any(k == 'for' for t, pp, k in path_condition(r)):
            open_rets.append(r.lineno)
    if open_rets:
        rep.note('observation: perform_test returns at line(s) %s without closing; the connection is closed by GEXTest.run / SSH_Socket.__del__' % open_rets)
