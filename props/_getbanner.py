"""Model of SSH_Socket.get_banner by abstract interpretation (sa/listinterp.py): the method (with every helper of SSH_Socket / ReadBuf it calls: read_line,
unread_len, private scanning helpers ...) is interpreted -- never executed -- on a scripted peer: a sequence of TCP segments followed by the way the peer stops
(close / timeout).  recv() is the interface point: each call appends the next segment to the stream token that stands for the read buffer; Banner.parse is an
oracle of the model ("the line starts with SSH-<d>.<d>-"; that the real parser reads lines this way is the banner-parse model's obligation).
-> (what get_banner returns, the lines handed to Banner.parse, bytes consumed from the buffer)
`expected` states the documented behaviour: complete lines are tried in order, empty lines skipped, the first one that parses is the banner and is returned at
once; every non-empty line before it is header text, in order; an unterminated tail is tried only when the peer has stopped sending.
"""
import ast
import re

from sa.core import AnalysisError, unparse, call_name, repo_resolver
from sa.abseval import Unknown, Opaque
from sa.listinterp import Interp
from props._codec import Stream, _class_consts

RX = re.compile(r'^SSH-\d\.\d+-')


class BannerTok:
    def __init__(self, line):
        self.line = line

    def __repr__(self):
        return '<banner %r>' % self.line

    def __eq__(self, other):
        return isinstance(other, BannerTok) and other.line == self.line

    def __hash__(self):
        return hash(self.line)

    def __deepcopy__(self, memo):
        return self


class _Sock:
    def __repr__(self):
        return '<socket object>'

    def __deepcopy__(self, memo):
        return self


def run(repo, segments, end=(-1, None), sshv=2):
    gb = repo.func('ssh_socket', 'SSH_Socket.get_banner')
    scls = repo.cls('ssh_socket', 'SSH_Socket')
    consts = _class_consts(scls)
    consts.update({k: v for k, v in _class_consts(repo.cls('readbuf', 'ReadBuf')).items() if k not in consts})
    me = _Sock()
    stream = Stream(b'')
    pending = list(segments)
    parsed = []
    sent = []
    base = getattr(repo, '_gb_resolver', None)
    if base is None:
        base = repo._gb_resolver = repo_resolver(repo)
    INTERFACE = ('recv', 'send_banner', 'send', 'get_banner')

    def resolver(call):
        f = call.func
        if isinstance(f, ast.Attribute) and isinstance(f.value, ast.Name) and f.value.id in ('self', 'cls') and f.attr not in INTERFACE:
            for mod, cls in (('ssh_socket', 'SSH_Socket'), ('readbuf', 'ReadBuf')):
                if repo.has_func(mod, cls + '.' + f.attr):
                    return repo.func(mod, cls + '.' + f.attr)
        return None

    def attr_hook(b, attr, interp):
        if b is me:
            if attr in ('_buf',):
                return (True, stream)
            if attr == 'unread_len':
                return (True, len(stream.data) - stream.pos)
            if attr == '_len':
                return (True, len(stream.data))
            if attr in consts:
                return (True, consts[attr])
        return None

    def hook(call, e, interp):
        t = call_name(call) or unparse(call.func)
        f = call.func
        if t == 'self.recv':
            if pending:
                seg = pending.pop(0)
                stream.data += seg
                return (True, (len(seg), None))
            return (True, end)
        if t == 'self.send_banner':
            sent.append(interp.value(call.args[0], e) if call.args else None)
            return (True, None)
        if t == 'Banner.parse' and len(call.args) == 1:
            line = interp.value(call.args[0], e)
            if not isinstance(line, str):
                raise Unknown('Banner.parse of a value the model does not know: %r' % (line,))
            parsed.append(line)
            return (True, BannerTok(line) if RX.match(line) else None)
        if isinstance(f, ast.Attribute) and f.attr in ('getvalue', 'tell', 'readline', 'read', 'seek'):
            try:
                b = interp.value(f.value, e)
            except Unknown:
                b = None
            if b is stream:
                args = [interp.value(a, e) for a in call.args]
                if f.attr == 'getvalue':
                    return (True, stream.data)
                if f.attr == 'tell':
                    return (True, stream.pos)
                if f.attr == 'readline' and not args:
                    i = stream.data.find(b'\n', stream.pos)
                    endp = len(stream.data) if i < 0 else i + 1
                    chunk = stream.data[stream.pos:endp]
                    stream.pos = endp
                    return (True, chunk)
                if f.attr == 'read' and len(args) == 1 and isinstance(args[0], int):
                    chunk = stream.data[stream.pos:stream.pos + args[0]]
                    stream.pos += len(chunk)
                    return (True, chunk)
                raise Unknown('stream operation %s is not modelled' % f.attr)
        if t.endswith('outputbuffer.d') or t.endswith('outputbuffer.v') or t.endswith('.d') and 'outputbuffer' in t:
            return (True, None)
        if t == 'SSH_HEADER.format':
            return (True, 'SSH-%s-model' % (interp.value(call.args[0], e) if call.args else '?'))
        return None
    params = [a.arg for a in gb.args.args]
    env = {params[0]: me, 'sshv': sshv, 'self.__sock': _Sock(), 'self.__banner': None, 'self.__header': [], 'self.__state': 0, 'SSH_HEADER': 'SSH-{}-model'}
    for k, v in consts.items():
        env['self.' + k] = v
    try:
        finals = Interp(call_hook=hook, resolver=resolver, attr_hook=attr_hook, budget=200000, try_normal_path=True).run(gb.body, env)
    except Unknown as ex:
        raise AnalysisError('SSH_Socket.get_banner cannot be interpreted: %s' % ex)
    if len(finals) != 1 or finals[0].get('<forks>'):
        raise AnalysisError('SSH_Socket.get_banner does not evaluate on a single path (forks %s)' % [f_.get('<forks>') for f_ in finals][:2])
    fe = finals[0]
    if fe.get('<crash>'):
        return {'crash': fe['<crash>'], 'ret': None, 'parsed': parsed, 'consumed': stream.pos, 'header_obj': None}
    r = fe.get('<return>')
    if not isinstance(r, tuple) or len(r) != 3:
        raise AnalysisError('SSH_Socket.get_banner: returned value not computable (%r)' % (r,))
    return {'crash': None, 'ret': r, 'parsed': parsed, 'consumed': stream.pos, 'stored_banner': fe.get('self.__banner'), 'stored_header': fe.get('self.__header'), 'total': len(stream.data), 'banner_sent': sent}


def expected(segments, end):
    data = b''
    pos = 0
    header = []
    tried = []
    n = len(segments)
    for i in range(n + 1):
        stopped = i == n
        if not stopped:
            data += segments[i]
        while pos < len(data):
            j = data.find(b'\n', pos)
            if j < 0 and not stopped:
                break
            endp = len(data) if j < 0 else j + 1
            line = data[pos:endp].rstrip().decode('utf-8', 'replace')
            pos = endp
            if not line.strip():
                continue
            tried.append(line)
            if RX.match(line):
                return (BannerTok(line), header, None), tried, pos
            header.append(line)
    return (None, header, end[1]), tried, pos


SCRIPTS = [
    ('the banner alone', [b'SSH-2.0-X_1.0\r\n']),
    ('header lines, an empty line, then the banner, then more data', [b'hello\r\n', b'\r\n', b'second line\r\nSSH-2.0-X_1.0 comment\r\n', b'trailing\r\n']),
    ('a banner split over two segments', [b'SSH-2.0', b'-X_1.0\r\n']),
    ('a header line split over two segments, banner in the next', [b'wel', b'come\n', b'SSH-1.99-Y\n']),
    ('no banner, the peer stops after an unterminated line', [b'junk\r\n', b'more junk']),
    ('nothing at all', []),
    ('an unterminated banner, then the peer stops', [b'SSH-2.0-X_1.0']),
    ('two identification lines in one segment', [b'SSH-2.0-first\r\nSSH-2.0-second\r\n']),
    ('blank lines only', [b'\r\n', b'  \r\n']),
    ('a line with a leading blank that would parse without it, then the banner', [b' SSH-2.0-not-at-line-start\r\n', b'SSH-2.0-real\r\n']),
    ('a banner that ends in a control character', [b'SSH-2.0-X_1.0 \x1c\r\n']),
    ('banner and key exchange data in one segment', [b'SSH-2.0-X_1.0\r\n\x00\x00\x00\x0c\x0a\x14']),
]
ENDS = [(-1, None), (-1, 'timed out')]
