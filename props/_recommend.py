"""Model of the recommendation pipeline by abstract interpretation (sa/listinterp.py): Algorithms.get_recommendations and
ssh_audit.get_algorithm_recommendations are interpreted -- never executed -- on a synthetic rating table (entries of every kind: old / new / client-only /
other-product / version-less, with and without failures and warnings, pseudo algorithms, certificate and security-key types, the "change, don't delete"
names), a peer that offers some of them, and an identified software (or none / an unrecognised product).  Version ordering is NOT part of this model: the
software object answers compare_version() by the numeric order of the dotted versions (that the real comparison does so is C14's obligation).

`expected(...)` states the documented rule (property C13):
  * an entry counts for a recognised software when its history is empty (never added then), or names a release of that product that is not newer than the
    server (client-only releases do not count for a server); unrecognised / unknown software: every entry counts, but nothing is recommended for addition;
  * offered + rated (failure or warning): change if it is one of the keys that can be fixed by configuration, else remove -- with 10 x failures + warnings points;
  * not offered + unrated + history known + not a certificate / security-key / pseudo algorithm: add (0 points);
  * empty maps are pruned.
"""
import ast
import copy

from sa.core import AnalysisError, unparse, call_name
from sa.abseval import Unknown, Opaque
from sa.listinterp import Interp

CHG = ('diffie-hellman-group-exchange-sha256', 'rsa-sha2-256', 'rsa-sha2-512', 'rsa-sha2-256-cert-v01@openssh.com', 'rsa-sha2-512-cert-v01@openssh.com')
DB = {
    'kex': {
        'k-old-good': [['3.0,d0.50,l10.6.0']], 'k-new-good': [['9.5']], 'k-newer-good': [['10.2,d2025.88']], 'k-cli-only': [['7.0C']], 'k-dropbear-only': [['d2020.79']],
        'k-old-fail': [['2.0,d0.28'], ['F1']], 'k-old-warn': [['2.0'], [], ['W1']], 'k-old-failwarn': [['2.0'], ['F1', 'F2'], ['W1', 'W2', 'W3']], 'k-new-fail': [['10.2'], ['F1']],
        'k-noversion': [[]], 'k-noversion-fail': [[], ['F1']], 'k-none-version': [[None]],
        'diffie-hellman-group-exchange-sha256': [['4.4'], [], ['W1']], 'kex-strict-s-v00@openssh.com': [['9.6']], 'ext-info-s': [['9.6']],
        'dual-fail': [['2.0'], ['F1']], 'dual-good': [['2.0']],      # names filed under two categories
    },
    'key': {
        'h-old-good': [['5.0']], 'h-cert-v01@x': [['5.6']], 'sk-h@x': [['8.2']], 'rsa-sha2-256': [['7.2'], [], ['W1']], 'h-old-fail': [['2.0'], ['F1']], 'h-x-cert-v01@x': [['5.6'], ['F1']],
    },
    'enc': {'e-good': [['6.0']], 'e-warn': [['1.0'], [], ['W1']], 'dual-good': [['2.0']]},
    'mac': {'m-good': [['6.0']], 'm-fail': [['1.0'], ['F1'], ['W1']], 'dual-fail': [['2.0'], ['F1']]},
}
OFFERS = {
    'everything rated and nothing else': {'kex': ['k-old-fail', 'k-old-warn', 'k-old-failwarn', 'k-new-fail', 'k-noversion-fail', 'diffie-hellman-group-exchange-sha256'], 'key': ['rsa-sha2-256', 'h-old-fail', 'h-x-cert-v01@x'], 'enc': ['e-warn'], 'mac': ['m-fail']},
    'only good algorithms': {'kex': ['k-old-good', 'k-new-good', 'k-cli-only', 'kex-strict-s-v00@openssh.com'], 'key': ['h-old-good', 'h-cert-v01@x'], 'enc': ['e-good'], 'mac': ['m-good']},
    'a mix, with names the table does not know': {'kex': ['k-old-good', 'k-old-fail', 'unknown-kex', 'gss-gex-sha1-AbC==', 'dual-fail', 'dual-good'], 'key': ['h-old-fail', 'sk-h@x'], 'enc': ['e-good', 'e-warn'], 'mac': []},
    'nothing': {'kex': [], 'key': [], 'enc': [], 'mac': []},
}
SOFTWARE = [('OpenSSH', '9.6'), ('OpenSSH', '9.5'), ('OpenSSH', '9.4'), ('OpenSSH', '3.5'), ('OpenSSH', '10.2'), ('OpenSSH', '10.10'), ('DropbearSSH', '2022.83'), ('DropbearSSH', '0.40'), ('LibSSH', '0.9.0'), ('TinySSH', '20240101'), ('UnknownSSH', '1.0'), None]


def vkey(v):
    out = []
    for part in str(v).split('.'):
        digits = ''.join(ch for ch in part if ch.isdigit())
        out.append(int(digits) if digits else 0)
    return out


class Tok:
    def __init__(self, name, attrs=None):
        self.name = name
        self.attrs = attrs or {}

    def __repr__(self):
        return self.name

    def __deepcopy__(self, memo):
        return self


def _attr_hook(base, attr, interp):
    if isinstance(base, Tok):
        if attr in base.attrs:
            return (True, base.attrs[attr])
        raise Unknown('no model value for %r.%s' % (base, attr))
    return None


def products(repo):
    out = {}
    for st in repo.cls('product', 'Product').body:
        if isinstance(st, ast.Assign) and isinstance(st.targets[0], ast.Name) and isinstance(st.value, ast.Constant):
            out['Product.' + st.targets[0].id] = st.value.value
    for need in ('Product.OpenSSH', 'Product.DropbearSSH', 'Product.LibSSH', 'Product.TinySSH'):
        if need not in out:
            raise AnalysisError('anchor vanished: %s' % need)
    return out


def algorithms_class_state(repo):
    """fresh values of the class-level containers / scalars of class Algorithms (literal displays only)"""
    out = {}
    for st in repo.cls('algorithms', 'Algorithms').body:
        tg = st.targets[0] if isinstance(st, ast.Assign) and len(st.targets) == 1 else (st.target if isinstance(st, ast.AnnAssign) and st.value is not None else None)
        if isinstance(tg, ast.Name):
            try:
                out[tg.id] = ast.literal_eval(st.value)
            except (ValueError, SyntaxError):
                pass
    return out


def run(repo, offer, software, for_server=True, db=None, class_state=None):
    """-> rec dictionary returned by Algorithms.get_recommendations (second component)"""
    gr = repo.func('algorithms', 'Algorithms.get_recommendations')
    prods = products(repo)
    params = [a.arg for a in gr.args.args]
    if params[1:] != ['software', 'for_server']:
        raise AnalysisError('get_recommendations: parameters are %s' % params)
    db = copy.deepcopy(DB if db is None else db)
    item = Tok('<item ssh2>', {'sshv': 2, 'db': db})
    sw = None
    if software is not None:
        pname = prods.get('Product.' + software[0], software[0])
        sw = Tok('<software %s %s>' % software, {'product': pname, 'version': software[1]})
    env = dict(prods)
    env.update({'self': Opaque(), 'self.values': [item], 'software': sw, 'for_server': for_server})
    # class-level containers of Algorithms (mutable class state: the same objects in every call that is handed the same `class_state`)
    for k_, v_ in (class_state if class_state is not None else algorithms_class_state(repo)).items():
        for pre_ in ('self.', 'cls.', 'Algorithms.'):
            env[pre_ + k_] = v_

    def hook(call, e, interp):
        t = call_name(call) or unparse(call.func)
        f = call.func
        if isinstance(f, ast.Attribute) and f.attr == 'items' and not call.args:
            try:
                base = interp.value(f.value, e)
            except Unknown:
                base = None
            if base is item:
                return (True, [(k, list(v)) for k, v in offer.items()])
        if isinstance(f, ast.Attribute) and f.attr == 'compare_version' and len(call.args) == 1:
            try:
                base = interp.value(f.value, e)
            except Unknown:
                base = None
            if isinstance(base, Tok) and 'version' in base.attrs:
                other = interp.value(call.args[0], e)
                a, b = vkey(base.attrs['version']), vkey(other)
                return (True, (a > b) - (a < b))
        if t == 'pow' and len(call.args) == 2:
            a, b = [interp.value(x, e) for x in call.args]
            return (True, pow(a, b))
        return None

    def resolver(call):
        f = call.func
        if isinstance(f, ast.Attribute) and isinstance(f.value, ast.Name):
            if f.value.id in ('Algorithm',) and repo.has_func('algorithm', 'Algorithm.' + f.attr):
                return repo.func('algorithm', 'Algorithm.' + f.attr)
            if f.value.id in ('self', 'cls', 'Algorithms') and f.attr != 'get_recommendations' and repo.has_func('algorithms', 'Algorithms.' + f.attr):
                return repo.func('algorithms', 'Algorithms.' + f.attr)
        return None
    try:
        finals = Interp(call_hook=hook, attr_hook=_attr_hook, resolver=resolver, budget=200000).run(gr.body, env)
    except Unknown as ex:
        raise AnalysisError('get_recommendations cannot be interpreted: %s' % ex)
    if len(finals) != 1 or finals[0].get('<forks>') or finals[0].get('<crash>'):
        raise AnalysisError('get_recommendations does not evaluate on a single path (forks %s, crash %s)' % ([f.get('<forks>') for f in finals][:2], finals[0].get('<crash>') if finals else None))
    r = finals[0].get('<return>')
    if not isinstance(r, tuple) or len(r) != 2 or not isinstance(r[1], dict):
        raise AnalysisError('get_recommendations: returned value not computable (%r)' % (r,))
    return r[1]


def expected(prods, offer, software, for_server=True):
    recognised = software is not None and software[0] in ('OpenSSH', 'DropbearSSH', 'LibSSH', 'TinySSH')
    out = {}
    for cat, offered in offer.items():
        acts = {'add': {}, 'del': {}, 'chg': {}}
        for n, rows in DB[cat].items():
            hist = rows[0]
            empty = len(hist) == 0 or hist[0] is None
            if not empty and recognised:
                avail = False
                for v in hist[0].split(','):
                    cli = v.endswith('C')
                    v2 = v[:-1] if cli else v
                    prod, ver = ('DropbearSSH', v2[1:]) if v2.startswith('d') else (('LibSSH', v2[2:]) if v2.startswith('l1') else ('OpenSSH', v2))
                    if not ver or prod != software[0] or (cli and for_server) or vkey(software[1]) < vkey(ver):
                        continue
                    avail = True
                if not avail:
                    continue
            faults = 10 * len(rows[1] if len(rows) > 1 else []) + len(rows[2] if len(rows) > 2 else [])
            if n not in offered:
                pseudo = (cat == 'key' and ('-cert-' in n or n.startswith('sk-'))) or (cat == 'kex' and (n.startswith('ext-info-') or n.startswith('kex-strict-')))
                if faults == 0 and not pseudo and not empty and recognised:
                    acts['add'][n] = 0
            elif faults > 0:
                acts['chg' if n in CHG else 'del'][n] = faults
        acts = {k: v for k, v in acts.items() if v}
        if acts:
            out[cat] = acts
    return {2: out} if out else {}


def run_levels(repo, rec, suppress):
    """ssh_audit.get_algorithm_recommendations interpreted on a given recommendation map -> its returned dictionary"""
    gar = repo.func('ssh_audit', 'get_algorithm_recommendations')
    params = [a.arg for a in gar.args.args]
    if params[:3] != ['algs', 'algorithm_recommendation_suppress_list', 'software']:
        raise AnalysisError('get_algorithm_recommendations: parameters are %s' % params)
    algs = Tok('<algs>')
    sw = Tok('<software>')
    env = {'algs': algs, 'algorithm_recommendation_suppress_list': suppress, 'software': sw, 'for_server': True}

    def hook(call, e, interp):
        f = call.func
        if isinstance(f, ast.Attribute) and f.attr == 'get_recommendations':
            return (True, (sw, copy.deepcopy(rec)))
        return None
    try:
        finals = Interp(call_hook=hook, attr_hook=_attr_hook, budget=100000).run(gar.body, env)
    except Unknown as ex:
        raise AnalysisError('get_algorithm_recommendations cannot be interpreted: %s' % ex)
    if len(finals) != 1 or finals[0].get('<forks>') or not isinstance(finals[0].get('<return>'), dict):
        raise AnalysisError('get_algorithm_recommendations does not evaluate to one dictionary (forks %s)' % [f.get('<forks>') for f in finals][:2])
    return finals[0]['<return>']


def expected_levels(rec, suppress):
    out = {}
    for sshv in (2, 1):
        for cat in ('kex', 'key', 'enc', 'mac'):
            for action in ('del', 'add', 'chg'):
                for name, pts in rec.get(sshv, {}).get(cat, {}).get(action, {}).items():
                    if suppress is not None and name in suppress:
                        continue
                    level = 'critical' if pts >= 10 else ('warning' if pts >= 1 else 'informational')
                    out.setdefault(level, {}).setdefault(action, {}).setdefault(cat, []).append(name)
    return out
