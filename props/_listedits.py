"""Shared by C01 and C15: in-place edits of the parsed KEXINIT name-lists anywhere on the audit path.

Provenance/alias analysis (sa/alias.py) per function, joined inter-procedurally at call sites (a parsed list passed as an argument makes
the callee's parameter an alias) and through Algorithms.Item (item.add stores the list object, Item.items() hands it out again)."""
import ast

from sa.core import AnalysisError, unparse, bind_args
from sa.alias import Derived
from sa.callgraph import CallGraph

LIST_ATTRS = ('kex_algorithms', 'key_algorithms', 'encryption', 'mac', 'compression', 'languages', 'supported_ciphers', 'supported_authentications')


def scan(repo):
    """returns (reach, seeds, is_src, cg)"""
    oas = repo.func('ssh_audit', 'output_algorithms')
    cg = CallGraph(repo)
    reach = cg.reachable([repo.func('ssh_audit', 'audit')])

    def is_src(e):
        return isinstance(e, ast.Attribute) and e.attr in LIST_ATTRS and isinstance(e.ctx, ast.Load) and not (isinstance(e.value, ast.Name) and e.value.id == 'self')
    # inter-procedural provenance: a parsed list passed as an argument makes the callee's parameter an alias of it
    seeds = {f: set() for f in reach}
    seeds[oas] = {'algorithms'}
    # the advertised lists also travel inside Algorithms.Item (item.add(category, <parsed list>) stores the list object itself, Item.items() hands it
    # out again): in the algorithms module a loop `for category, names in <item>.items()` over an element of self.values binds `names` to a parsed list
    for f in reach:
        if f._module.name != 'algorithms':
            continue
        item_vars = {lp.target.id for lp in ast.walk(f) if isinstance(lp, ast.For) and isinstance(lp.target, ast.Name) and unparse(lp.iter) in ('self.values', 'self.__values')}
        for lp in ast.walk(f):
            if isinstance(lp, ast.For) and isinstance(lp.iter, ast.Call) and isinstance(lp.iter.func, ast.Attribute) and lp.iter.func.attr == 'items' and isinstance(lp.iter.func.value, ast.Name) \
                    and lp.iter.func.value.id in item_vars and isinstance(lp.target, ast.Tuple) and len(lp.target.elts) == 2 and isinstance(lp.target.elts[1], ast.Name):
                seeds[f].add(lp.target.elts[1].id)
    changed = True
    rounds = 0
    while changed and rounds < 8:
        changed = False
        rounds += 1
        for f in reach:
            if f._module.name in ('dheat',):
                continue
            d = Derived(f, is_src, extra_seeds=seeds[f], elements=False)
            for (g, site, kind) in cg.edges.get(f, []):
                if not isinstance(site, ast.Call) or kind not in ('exact', 'dispatch') or g not in seeds:
                    continue
                try:
                    b = bind_args(site, g, skip_self=(g._cls is not None and g.args.args and g.args.args[0].arg in ('self', 'cls') and not isinstance(site.func, ast.Name)))
                except AnalysisError:
                    continue
                for par, a in b.items():
                    if d.derived(a) and par not in seeds[g] and g.name != '__init__':
                        seeds[g].add(par)
                        changed = True
    return reach, seeds, is_src, cg


def edits(repo):
    reach, seeds, is_src, cg = scan(repo)
    out = []
    for f in reach:
        if f._module.name in ('dheat',):
            continue
        d = Derived(f, is_src, extra_seeds=seeds[f], elements=False)
        for node, desc in d.mutations():
            out.append((f, node, desc))
    return out, len(reach)
