"""Model of Software.compare_version by abstract interpretation (sa/listinterp.py): the method (and Utils.version_key) is interpreted on pairs of concrete release
strings; applications of the method's *constant* regular expressions are evaluated with the `re` module (pure library functions on constants).  The result sign is
compared with the documented order: dot-separated decimal components compared numerically, then the product's patch rules (OpenSSH: pN, with p1 == the OpenBSD
release; Dropbear: testN releases precede the final one; otherwise the suffix as text)."""
import ast
import re

from sa.core import AnalysisError, unparse, call_name
from sa.abseval import Unknown, Opaque
from sa.listinterp import Interp


class Tok:
    def __init__(self, name, attrs):
        self.name = name
        self.attrs = attrs

    def __repr__(self):
        return self.name

    def __deepcopy__(self, memo):
        return self


def _attr_hook(base, attr, interp):
    if isinstance(base, Tok):
        if attr in base.attrs:
            return (True, base.attrs[attr])
        raise Unknown('no model value for %r.%s' % (base, attr))
    return None


def compare(repo, product, version, patch, other):
    from props._recommend import products
    cv = repo.func('software', 'Software.compare_version')
    params = [a.arg for a in cv.args.args]
    if len(params) != 2:
        raise AnalysisError('compare_version: parameters are %s' % params)
    prods = products(repo)
    pname = prods.get('Product.' + product, product)
    me = Tok('<software>', {'product': pname, 'version': version, 'patch': patch, 'vendor': None, 'os': None})
    env = dict(prods)
    env.update({params[0]: me, params[1]: other})
    consts = {}
    for st in repo.cls('software', 'Software').body:
        if isinstance(st, ast.Assign) and len(st.targets) == 1 and isinstance(st.targets[0], ast.Name) and isinstance(st.value, ast.Call) and unparse(st.value.func) == 're.compile' \
                and st.value.args and isinstance(st.value.args[0], ast.Constant):
            consts[st.targets[0].id] = re.compile(st.value.args[0].value)
    for st in repo.mod('software').tree.body:
        if isinstance(st, ast.Assign) and len(st.targets) == 1 and isinstance(st.targets[0], ast.Name) and isinstance(st.value, ast.Call) and unparse(st.value.func) == 're.compile' \
                and st.value.args and isinstance(st.value.args[0], ast.Constant):
            consts[st.targets[0].id] = re.compile(st.value.args[0].value)

    def pattern(node, e, interp):
        t = unparse(node)
        name = t.split('.')[-1]
        if name in consts and (isinstance(node, ast.Name) or (isinstance(node, ast.Attribute) and unparse(node.value) in ('cls', 'self', 'Software'))):
            return consts[name]
        try:
            v = interp.value(node, e)
        except Unknown:
            return None
        return re.compile(v) if isinstance(v, str) else (v if isinstance(v, re.Pattern) else None)

    def hook(call, e, interp):
        fn = call.func
        t = call_name(call) or unparse(fn)
        if t in ('re.match', 're.search', 're.fullmatch', 're.findall', 're.sub') and len(call.args) >= 2:
            pat = pattern(call.args[0], e, interp)
            args = [interp.value(a, e) for a in call.args[1:]]
            if pat is not None and all(isinstance(a, str) for a in args):
                return (True, getattr(pat, t.split('.')[1])(*args))
        if isinstance(fn, ast.Attribute) and fn.attr in ('match', 'search', 'fullmatch', 'findall') and len(call.args) == 1:
            pat = pattern(fn.value, e, interp)
            if pat is not None:
                a = interp.value(call.args[0], e)
                if isinstance(a, str):
                    return (True, getattr(pat, fn.attr)(a))
        if isinstance(fn, ast.Attribute) and fn.attr in ('group', 'groups'):
            try:
                base = interp.value(fn.value, e)
            except Unknown:
                base = None
            if isinstance(base, re.Match):
                return (True, getattr(base, fn.attr)(*[interp.value(a, e) for a in call.args]))
        if t == 'isinstance' and len(call.args) == 2 and unparse(call.args[1]) == 'Software':
            v = interp.value(call.args[0], e)
            return (True, isinstance(v, Tok))
        if t == 'bool' and len(call.args) == 1:
            try:
                v = interp.value(call.args[0], e)
            except Unknown:
                return None
            if isinstance(v, re.Match):
                return (True, True)
        return None

    from sa.core import repo_resolver
    resolver = getattr(repo, '_version_resolver', None)
    if resolver is None:
        resolver = repo._version_resolver = repo_resolver(repo, exclude=('Software.compare_version',))
    try:
        finals = Interp(call_hook=hook, attr_hook=_attr_hook, resolver=resolver, budget=20000).run(cv.body, env)
    except Unknown as ex:
        raise AnalysisError('compare_version cannot be interpreted for %s %s%s vs %r: %s' % (product, version, patch or '', other, ex))
    if len(finals) != 1 or finals[0].get('<forks>') or finals[0].get('<outcome>') != 'return' or not isinstance(finals[0].get('<return>'), int):
        raise AnalysisError('compare_version does not evaluate to one integer for %s %s%s vs %r (forks %s, returns %r)' % (product, version, patch or '', other, [f.get('<forks>') for f in finals][:1], finals[0].get('<return>') if finals else None))
    r = finals[0]['<return>']
    return (r > 0) - (r < 0)


def vkey(v):
    out = []
    for part in v.split('.'):
        m = re.match(r'^\d+', part)
        out.append(int(m.group(0)) if m else 0)
    return tuple(out)


def expected(product, version, patch, other):
    m = re.match(r'^([\d\.]*\d)(.*)$', other)
    over, opatch = (m.group(1), m.group(2).strip()) if m else (other, '')
    a, b = vkey(version), vkey(over)
    if a != b:
        return -1 if a < b else 1
    sp = patch or ''
    if product == 'DropbearSSH':
        opatch = opatch if re.match(r'^test\d.*$', opatch) else 'z' + opatch
        sp = sp if re.match(r'^test\d.*$', sp) else 'z' + sp
    elif product == 'OpenSSH':
        m1, m2 = re.match(r'^p(\d).*', opatch), re.match(r'^p(\d).*', sp)
        if not (m1 and m2):
            if m1:
                opatch = m1.group(1)
            if m2:
                sp = m2.group(1)
        if (sp == '' and opatch == '1') or (sp == '1' and opatch == ''):
            return 0
    return (sp > opatch) - (sp < opatch)


NUMBERS = ['7.4', '7.10', '7.9', '10.0', '9.9', '9.10', '0.9.6', '0.10.1', '0.10.10', '0.9.10', '2020.81', '2022.83', '2019.78', '1', '10', '4.3.2', '4.3.10', '4.30.1', '6.6.1', '6.6']
PATCHED = [('OpenSSH', '7.4', 'p1', '7.4'), ('OpenSSH', '7.4', None, '7.4p1'), ('OpenSSH', '7.4', 'p1', '7.4p2'), ('OpenSSH', '7.4', 'p2', '7.4p1'), ('OpenSSH', '7.4', 'p1', '7.4p1'), ('OpenSSH', '7.4', None, '7.4'),
           ('OpenSSH', '7.10', 'p1', '7.9p2'), ('OpenSSH', '7.9', 'p2', '7.10p1'), ('OpenSSH', '10.0', 'p1', '9.9p2'),
           ('DropbearSSH', '2020.81', None, '2020.81'), ('DropbearSSH', '0.53', 'test1', '0.53'), ('DropbearSSH', '0.53', None, '0.53test2'), ('DropbearSSH', '0.53', 'test1', '0.53test2'), ('DropbearSSH', '0.53', 'test2', '0.53test1'),
           ('LibSSH', '0.10.6', None, '0.9.6'), ('LibSSH', '0.9.6', None, '0.10.6'), ('LibSSH', '0.10.6', '-rc1', '0.10.6'), ('LibSSH', '0.10.6', None, '0.10.6-rc1')]
