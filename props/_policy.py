"""Model of Policy.evaluate by abstract interpretation (sa/listinterp.py), shared by C05 (exact mode drift) and C06 (documented relaxations).

evaluate() is interpreted -- never executed -- on a policy state (the fields the loader fills) and a peer (name lists, measured host keys, group-exchange
moduli).  Helper methods of Policy (the error recorder included) are interpreted in place; the verdict is the first component of the returned tuple,
the errors are what the path left in self._errors.  The oracle `expected` states the documented rule (README, "policy" section):
  * lists: exact mode -- the peer's list equals the policy's (host keys: after removing the policy's optional host keys from the peer's list);
           subset mode -- every name the peer offers is in the policy's list (host keys: optional keys are not consulted); a strict-kex marker the policy
           lists must be offered;
  * sizes: exact -- equal; larger-keys mode -- at least the expected size; only for key types / group exchanges the peer presents;
           CA: checked only when the policy names a CA type and size; a different CA type is reported as such, else the size is compared like a key size;
  * banner, compression: compared when set; without a KEXINIT only the banner is evaluated.
"""
import ast
import copy

from sa.core import AnalysisError, unparse
from sa.abseval import Unknown, Opaque
from sa.listinterp import Interp

STRICT = ('kex-strict-s-v00@openssh.com', 'kex-strict-c-v00@openssh.com')

POLICY = {
    '_banner': None, '_compressions': None, '_optional_host_keys': ['ssh-dss'],
    '_host_keys': ['rsa-sha2-512', 'ssh-ed25519', 'ssh-ed25519-cert-v01@openssh.com'],
    '_kex': ['curve25519-sha256', 'diffie-hellman-group-exchange-sha256', 'kex-strict-s-v00@openssh.com'],
    '_ciphers': ['chacha20-poly1305@openssh.com', 'aes256-gcm@openssh.com'],
    '_macs': ['hmac-sha2-256-etm@openssh.com', 'umac-128-etm@openssh.com'],
    '_hostkey_sizes': {'rsa-sha2-512': {'hostkey_size': 3072, 'ca_key_type': '', 'ca_key_size': 0}, 'ssh-ed25519': {'hostkey_size': 256, 'ca_key_type': '', 'ca_key_size': 0},
                       'ssh-ed25519-cert-v01@openssh.com': {'hostkey_size': 256, 'ca_key_type': 'ssh-rsa', 'ca_key_size': 4096}},
    '_dh_modulus_sizes': {'diffie-hellman-group-exchange-sha1': 2048, 'diffie-hellman-group-exchange-sha256': 3072},
}
PEER = {
    'key_algorithms': ['rsa-sha2-512', 'ssh-ed25519', 'ssh-ed25519-cert-v01@openssh.com'],
    'kex_algorithms': ['curve25519-sha256', 'diffie-hellman-group-exchange-sha256', 'kex-strict-s-v00@openssh.com'],
    'encryption': ['chacha20-poly1305@openssh.com', 'aes256-gcm@openssh.com'],
    'mac': ['hmac-sha2-256-etm@openssh.com', 'umac-128-etm@openssh.com'],
    'compression': ['none'],
    'host_keys': {'rsa-sha2-512': {'hostkey_size': 3072, 'ca_key_type': '', 'ca_key_size': 0}, 'ssh-ed25519': {'hostkey_size': 256, 'ca_key_type': '', 'ca_key_size': 0},
                  'ssh-ed25519-cert-v01@openssh.com': {'hostkey_size': 256, 'ca_key_type': 'ssh-rsa', 'ca_key_size': 4096}},
    'dh_modulus_sizes': {'diffie-hellman-group-exchange-sha1': 2048, 'diffie-hellman-group-exchange-sha256': 3072},
}
LIST_FIELDS = (('_host_keys', 'key_algorithms', 'Host keys'), ('_kex', 'kex_algorithms', 'Key exchanges'), ('_ciphers', 'encryption', 'Ciphers'), ('_macs', 'mac', 'MACs'))


class Tok:
    def __init__(self, name, attrs=None):
        self.name = name
        self.attrs = attrs or {}

    def __repr__(self):
        return self.name

    def __deepcopy__(self, memo):
        return self


def _attr_hook(base, attr, interp):
    if isinstance(base, Tok):
        if attr in base.attrs:
            return (True, base.attrs[attr])
        raise Unknown('no model value for %r.%s' % (base, attr))
    return None


def class_consts(repo, ce):
    out = {}
    for st in repo.cls('policy', 'Policy').body:
        tv = (st.targets[0], st.value) if isinstance(st, ast.Assign) and len(st.targets) == 1 else ((st.target, st.value) if isinstance(st, ast.AnnAssign) and st.value is not None else None)
        if tv and isinstance(tv[0], ast.Name):
            try:
                v = ce.eval_in(tv[1], 'policy', 'Policy')
            except Exception:      # noqa: BLE001 -- not a constant the evaluator can compute
                continue
            for pre in ('Policy.', 'self.', 'cls.'):
                out[pre + tv[0].id] = v
    return out


def run(repo, consts, policy, peer, subset=False, larger=False, banner='SSH-2.0-OpenSSH_9.9', prior_errors=()):
    """-> [(verdict, [error record])] for every path of Policy.evaluate (one, unless the code branches on something the model does not fix)"""
    ev_ = repo.func('policy', 'Policy.evaluate')
    params = [a.arg for a in ev_.args.args]
    if params[1:] != ['banner', 'kex']:
        raise AnalysisError('Policy.evaluate: parameters are %s, the model expects (self, banner, kex)' % params)
    env = dict(consts)
    env.update({'self.' + k: copy.deepcopy(v) for k, v in policy.items()})
    env.update({'self._allow_algorithm_subset_and_reordering': subset, 'self._allow_larger_keys': larger, 'self._errors': list(prior_errors), 'self': Opaque(), 'banner': banner})
    if peer is None:
        env['kex'] = None
    else:
        party = Tok('<kex.server>', {'encryption': list(peer['encryption']), 'mac': list(peer['mac']), 'compression': list(peer['compression']), 'languages': ['']})
        env['kex'] = Tok('<kex>', {'key_algorithms': list(peer['key_algorithms']), 'kex_algorithms': list(peer['kex_algorithms']), 'server': party, 'client': party})

    def hook(call, e, interp):
        t = unparse(call.func)
        if t == 'self._get_errors':
            return (True, (e.get('self._errors'), '<rendered errors>'))
        if t.endswith('.host_keys') and not call.args and peer is not None:
            return (True, copy.deepcopy(peer['host_keys']))
        if t.endswith('.dh_modulus_sizes') and not call.args and peer is not None:
            return (True, dict(peer['dh_modulus_sizes']))
        if t == 'str' and len(call.args) == 1 and unparse(call.args[0]) == 'banner':
            return (True, str(e.get('banner')))
        return None

    def resolver(call):
        f = call.func
        if isinstance(f, ast.Attribute) and isinstance(f.value, ast.Name) and f.value.id in ('self', 'Policy', 'cls') and f.attr != '_get_errors' and repo.has_func('policy', 'Policy.' + f.attr):
            return repo.func('policy', 'Policy.' + f.attr)
        return None
    try:
        finals = Interp(call_hook=hook, attr_hook=_attr_hook, resolver=resolver, budget=60000).run(ev_.body, env)
    except Unknown as ex:
        raise AnalysisError('Policy.evaluate cannot be interpreted: %s' % ex)
    out = []
    for fe in finals:
        r = fe.get('<return>')
        if fe.get('<crash>'):
            raise AnalysisError('Policy.evaluate raises on a modelled peer: %s' % fe['<crash>'])
        if fe.get('<outcome>') != 'return' or not isinstance(r, tuple) or not isinstance(r[0], bool):
            raise AnalysisError('Policy.evaluate: verdict not computable (returns %r, forks %s)' % (r, fe.get('<forks>')))
        errs = fe.get('self._errors')
        if not isinstance(errs, list) or any(not isinstance(d, dict) for d in errs):
            raise AnalysisError('Policy.evaluate: recorded errors not computable')
        out.append((r[0], errs[len(prior_errors):], r, fe.get('<forks>', [])))
    return out


def size_bad(actual, expected, larger):
    return actual < expected if larger else actual != expected


def expected(policy, peer, subset, larger, banner):
    """labels of the fields the documentation says must be reported, in any order (a multiset is not required: one error per field)"""
    labels = []
    if policy['_banner'] is not None and str(banner) != policy['_banner']:
        labels.append('Banner')
    if peer is None:
        return labels
    if policy['_compressions'] is not None and peer['compression'] != policy['_compressions']:
        labels.append('Compression')
    for fld, acc, label in LIST_FIELDS:
        pol = policy[fld]
        if pol is None:
            continue
        got = peer[acc]
        if subset:
            bad = any(x not in pol for x in got)
            if fld == '_kex' and any(m in pol and m not in got for m in STRICT):
                bad = True
        else:
            cmp_ = [x for x in got if x not in (policy['_optional_host_keys'] or [])] if fld == '_host_keys' and policy['_optional_host_keys'] is not None else got
            bad = cmp_ != pol
        if bad:
            labels.append(label)
    if policy['_hostkey_sizes'] is not None:
        for t in sorted(policy['_hostkey_sizes']):
            if t not in peer['host_keys']:
                continue
            exp, act = policy['_hostkey_sizes'][t], peer['host_keys'][t]
            if size_bad(act['hostkey_size'], exp['hostkey_size'], larger):
                labels.append('Host key (%s) sizes' % t)
            if exp['ca_key_type'] and exp['ca_key_size'] > 0:
                if act['ca_key_type'] != exp['ca_key_type']:
                    labels.append('CA signature type')
                elif size_bad(act['ca_key_size'], exp['ca_key_size'], larger):
                    labels.append('CA signature size (%s)' % act['ca_key_type'])
    if policy['_dh_modulus_sizes'] is not None:
        for t in sorted(policy['_dh_modulus_sizes']):
            if t in peer['dh_modulus_sizes'] and size_bad(peer['dh_modulus_sizes'][t], policy['_dh_modulus_sizes'][t], larger):
                labels.append('Group exchange (%s) modulus sizes' % t)
    return labels


def peers(pol=None):
    """(description, peer) variants of the peer that conforms to the policy: one attribute changed at a time, plus a few combinations"""
    PEER = copy.deepcopy(globals()['PEER'])
    if pol is not None:
        for fld, acc, label in LIST_FIELDS:
            if pol.get(fld) is not None:
                PEER[acc] = list(pol[fld])
    out = [('the conforming peer', copy.deepcopy(PEER))]

    def var(desc, **ch):
        p = copy.deepcopy(PEER)
        for k, v in ch.items():
            p[k] = v
        out.append((desc, p))
    for fld, acc, label in LIST_FIELDS:
        lst = PEER[acc]
        var('%s: last name removed' % label, **{acc: lst[:-1]})
        var('%s: first name removed' % label, **{acc: lst[1:]})
        var('%s: a foreign name appended' % label, **{acc: lst + ['foreign@example.com']})
        var('%s: a foreign name in front' % label, **{acc: ['foreign@example.com'] + lst})
        var('%s: two foreign names' % label, **{acc: ['foreign@example.com'] + lst + ['other@example.com']})
        var('%s: reordered' % label, **{acc: [lst[1], lst[0]] + lst[2:]})
        var('%s: only a foreign name' % label, **{acc: ['foreign@example.com']})
        var('%s: empty' % label, **{acc: []})
    var('Host keys: an optional host key offered as well', key_algorithms=PEER['key_algorithms'] + ['ssh-dss'])
    var('Host keys: an optional host key offered, a required one missing', key_algorithms=['ssh-dss'] + PEER['key_algorithms'][1:])
    nomark = [x for x in PEER['kex_algorithms'] if x not in STRICT]
    var('Key exchanges: strict-kex marker missing', kex_algorithms=nomark)
    var('Key exchanges: strict-kex marker missing, a foreign name present', kex_algorithms=nomark + ['foreign@example.com'])
    var('Key exchanges: the other role\'s strict-kex marker offered instead', kex_algorithms=nomark + [m for m in STRICT if m not in PEER['kex_algorithms']])
    marks = [x for x in PEER['kex_algorithms'] if x in STRICT]
    if len(marks) > 1:      # a policy listing both markers: each one stays mandatory on its own
        for m in marks:
            var('Key exchanges: only the strict-kex marker %s missing' % m, kex_algorithms=[x for x in PEER['kex_algorithms'] if x != m])
    for t, ent in PEER['host_keys'].items():
        for d in (+1024, -128, +1, -1):
            hk = copy.deepcopy(PEER['host_keys'])
            hk[t]['hostkey_size'] += d
            var('host key %s size %+d' % (t, d), host_keys=hk)
        if ent['ca_key_type']:
            for d in (+1024, -1024, +1, -1):
                hk = copy.deepcopy(PEER['host_keys'])
                hk[t]['ca_key_size'] += d
                var('CA key size of %s %+d' % (t, d), host_keys=hk)
            hk = copy.deepcopy(PEER['host_keys'])
            hk[t]['ca_key_type'] = 'ssh-ed25519'
            var('CA key type of %s changed' % t, host_keys=hk)
            hk = copy.deepcopy(hk)
            hk[t]['ca_key_size'] = 256
            var('CA key type and size of %s changed' % t, host_keys=hk)
    hk = copy.deepcopy(PEER['host_keys'])
    del hk['ssh-ed25519']
    var('a sized host key type not presented', host_keys=hk)
    for d in (+1024, -1024, +1, -1):
        var('group-exchange modulus %+d' % d, dh_modulus_sizes={k: v + d for k, v in PEER['dh_modulus_sizes'].items()})
        for t in PEER['dh_modulus_sizes']:
            var('group-exchange modulus of %s %+d' % (t, d), dh_modulus_sizes=dict(PEER['dh_modulus_sizes'], **{t: PEER['dh_modulus_sizes'][t] + d}))
    var('group exchange not measured', dh_modulus_sizes={})
    var('one group exchange not measured', dh_modulus_sizes={k: v for k, v in list(PEER['dh_modulus_sizes'].items())[:1]})
    var('compression differs', compression=['none', 'zlib@openssh.com'])
    return out


def policies():
    out = [('all fields', copy.deepcopy(POLICY))]
    p = copy.deepcopy(POLICY)
    p['_optional_host_keys'] = None
    out.append(('no optional host keys', p))
    p = copy.deepcopy(POLICY)
    p['_compressions'] = ['none']
    p['_banner'] = 'SSH-2.0-OpenSSH_9.9'
    out.append(('banner and compression pinned', p))
    p = copy.deepcopy(POLICY)
    p['_banner'] = 'SSH-2.0-OpenSSH_8.0'
    out.append(('another banner pinned', p))
    p = copy.deepcopy(POLICY)
    p['_kex'] = ['curve25519-sha256', 'diffie-hellman-group-exchange-sha256', STRICT[1]]
    out.append(('a client policy (client strict-kex marker)', p))
    p = copy.deepcopy(POLICY)
    p['_kex'] = ['curve25519-sha256', 'diffie-hellman-group-exchange-sha256', STRICT[0], STRICT[1]]
    out.append(('a policy listing both strict-kex markers', p))
    p = {k: None for k in POLICY}
    out.append(('empty policy', p))
    return out


# ---------------------------------------------------------------------------------------------------------------------------------------
# the policy file: Policy.create (peer -> text) and the constructor (text -> policy state), both by interpretation
# ---------------------------------------------------------------------------------------------------------------------------------------
STATE_FIELDS = ('_name', '_version', '_banner', '_compressions', '_host_keys', '_optional_host_keys', '_kex', '_ciphers', '_macs', '_hostkey_sizes', '_dh_modulus_sizes',
                '_server_policy', '_allow_algorithm_subset_and_reordering', '_allow_larger_keys')


class _LoadError(Exception):
    pass


def _lib(call, e, interp):
    import json as _json
    t = unparse(call.func)
    if t == 'json.loads' and len(call.args) == 1:
        v = interp.value(call.args[0], e)
        if isinstance(v, str):
            try:
                return (True, _json.loads(v))
            except ValueError as ex:
                raise _LoadError('json.loads raises %s' % ex)
    if t == 'json.dumps' and len(call.args) == 1 and not call.keywords:
        v = interp.value(call.args[0], e)
        try:
            return (True, _json.dumps(v))
        except TypeError as ex:
            raise _LoadError('json.dumps raises %s' % ex)
    if t == 'int' and len(call.args) == 1:
        v = interp.value(call.args[0], e)
        if isinstance(v, str):
            try:
                return (True, int(v))
            except ValueError as ex:
                raise _LoadError('int() raises %s' % ex)
    if t == 'print':
        return (True, None)
    if t in ('copy.deepcopy', 'deepcopy') and len(call.args) == 1:
        return (True, copy.deepcopy(interp.value(call.args[0], e)))
    if t in ('date.today', 'datetime.date.today'):
        return (True, '<today>')
    if isinstance(call.func, ast.Attribute) and call.func.attr == 'strftime':
        return (True, '2026/01/01')
    return None


def _policy_resolver(repo):
    def resolver(call):
        f = call.func
        if isinstance(f, ast.Attribute) and isinstance(f.value, ast.Name) and f.value.id in ('self', 'Policy', 'cls') and repo.has_func('policy', 'Policy.' + f.attr) and f.attr not in ('__init__',):
            return repo.func('policy', 'Policy.' + f.attr)
        return None
    return resolver


def load(repo, consts, text):
    """Policy(policy_data=text) interpreted -> {field: value} of the policy state, or ('error', message) when the constructor raises"""
    init = repo.func('policy', 'Policy.__init__')
    params = [a.arg for a in init.args.args]
    need = {'policy_file', 'policy_data', 'manual_load', 'json_output'}
    if not need <= set(params):
        raise AnalysisError('Policy.__init__: parameters are %s' % params)
    env = dict(consts)
    env.update({params[0]: Opaque(), 'policy_file': None, 'policy_data': text, 'manual_load': False, 'json_output': False, 'sys.stdout': '<stdout>', 'sys.stderr': '<stderr>'})
    for p_, d in zip(params[len(params) - len(init.args.defaults):], init.args.defaults):
        if p_ not in need:
            env[p_] = ast.literal_eval(d)
    try:
        finals = Interp(call_hook=_lib, resolver=_policy_resolver(repo), budget=400000, try_normal_path=True).run(init.body, env)
    except _LoadError as ex:
        return ('error', str(ex))
    except Unknown as ex:
        raise AnalysisError('Policy.__init__ cannot be interpreted on a policy text: %s' % ex)
    if len(finals) != 1 or finals[0].get('<forks>'):
        raise AnalysisError('Policy.__init__ does not evaluate on a single path (forks %s)' % [f.get('<forks>') for f in finals][:2])
    fe = finals[0]
    if fe.get('<crash>'):
        return ('error', 'crash: %s' % fe['<crash>'])
    if fe.get('<outcome>') == 'raise':
        return ('error', 'raises %s' % (fe.get('<raise>') or 'an exception'))
    pre = params[0] + '.'
    return {k[len(pre):]: v for k, v in fe.items() if isinstance(k, str) and k.startswith(pre) and k[len(pre):] in STATE_FIELDS}


def create(repo, consts, peer, banner='SSH-2.0-OpenSSH_9.9', client_audit=False, source='host'):
    """Policy.create(source, banner, kex, client_audit) interpreted on a peer -> the policy text"""
    cr = repo.func('policy', 'Policy.create')
    params = [a.arg for a in cr.args.args]
    if params != ['source', 'banner', 'kex', 'client_audit']:
        raise AnalysisError('Policy.create: parameters are %s' % params)
    party = Tok('<kex.server>', {'encryption': list(peer['encryption']), 'mac': list(peer['mac']), 'compression': list(peer['compression']), 'languages': ['']})
    # the other direction of the KEXINIT carries different lists: a policy covers the server-to-client lists (the ones the report shows)
    other = Tok('<kex.client>', {'encryption': ['other-direction-cipher'] + list(peer['encryption'])[:1], 'mac': ['other-direction-mac'], 'compression': ['other-direction-compression'], 'languages': ['']})
    kex = Tok('<kex>', {'key_algorithms': list(peer['key_algorithms']), 'kex_algorithms': list(peer['kex_algorithms']), 'server': party, 'client': other})
    env = dict(consts)
    env.update({'source': source, 'banner': banner, 'kex': kex, 'client_audit': client_audit})

    def hook(call, e, interp):
        t = unparse(call.func)
        if t.endswith('.host_keys') and not call.args:
            hk = copy.deepcopy(peer['host_keys'])
            for v in hk.values():
                v.setdefault('raw_hostkey_bytes', b'<blob>')
            return (True, hk)
        if t.endswith('.dh_modulus_sizes') and not call.args:
            return (True, dict(peer['dh_modulus_sizes']))
        if t == 'str' and len(call.args) == 1:
            v = interp.value(call.args[0], e)
            if isinstance(v, str):
                return (True, v)
        return _lib(call, e, interp)
    try:
        finals = Interp(call_hook=hook, attr_hook=_attr_hook, resolver=_policy_resolver(repo), budget=200000, try_normal_path=True).run(cr.body, env)
    except _LoadError as ex:
        return ('error', str(ex))
    except Unknown as ex:
        raise AnalysisError('Policy.create cannot be interpreted: %s' % ex)
    if len(finals) != 1 or finals[0].get('<forks>'):
        raise AnalysisError('Policy.create does not evaluate on a single path (forks %s)' % [f.get('<forks>') for f in finals][:2])
    fe = finals[0]
    if fe.get('<crash>'):
        return ('error', 'crash: %s' % fe['<crash>'])
    if not isinstance(fe.get('<return>'), str):
        raise AnalysisError('Policy.create: returned text not computable (%r)' % (fe.get('<return>'),))
    return fe['<return>']
