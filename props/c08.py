"""C08 -- one bad target never costs the others their results."""
import ast
import itertools

from sa.core import AnalysisError, unparse, walk_no_nested, stmt_text, call_name, bind_args, attr_chain, func_id, get_kw
from sa.logic import path_condition
from sa.cfg import CFG, describe_path
from sa.callgraph import CallGraph
from sa.consteval import ConstEnv
from sa.escape import EscapeAnalysis, enclosing
from props.c09 import partial_sites, TOTAL_HERE, EXPLICIT

EXPL = ('Decides from the source: (1) the exception-escape set of the pool task (target_worker_thread), computed over the resolved call graph including SystemExit, is empty -- nothing but a normal return can leave a task, so future.result() '
        'cannot abort the run; statements of the task outside its try block are checked for partial operations (validating attribute stores); (2) the rank list evaluates to [GOOD, WARNING, FAILURE, CONNECTION_ERROR, UNKNOWN_ERROR] and every constant a task can '
        'return is in it, so .index() is total; (3) the fold keeps the higher-ranked status, starts at GOOD and is what main returns; (4) one task is submitted per parsed target, the completion loop prints each task\'s text exactly once, the separator exactly '
        'between blocks, and the JSON array delimiters dominate / post-dominate the loop; (5) in JSON mode every text a task can hand back is a json.dumps result. Not decided: real stdout under thread interleavings (prints happen only in the main thread, which is checked).')


def run(repo, rep, tier):
    rep.explanation = EXPL
    ce = ConstEnv(repo)
    cg = CallGraph(repo)
    tw = repo.func('ssh_audit', 'target_worker_thread')
    au = repo.func('ssh_audit', 'audit')
    mn = repo.func('ssh_audit', 'main')
    rep.saw(tw), rep.saw(mn)

    # ---- rule 1: escape set of the task entry ---------------------------------------------------------------------------
    def skip(f):
        fid = func_id(f)
        return fid in EXPLICIT or (fid.startswith('dheat:') and fid not in ('dheat:DHEat.dh_rate_test', 'dheat:DHEat._dh_rate_test', 'dheat:DHEat._resolve_hostname', 'dheat:DHEat._dh_rate_test._close_socket'))
    total = dict(TOTAL_HERE)
    ea = EscapeAnalysis(repo, cg, partial_sites, skip_func=skip, total_here=total)
    esc = ea.of(tw)
    n_esc = 0
    for s, chain in sorted(esc, key=lambda x: (func_id(x[0].func), x[0].node.lineno)):
        if s.exc == 'KeyboardInterrupt':
            continue
        if s.exc == 'SystemExit' and s.single_target_only:
            rep.ob('escape', 'sys.exit in %s is guarded by the multi-target test (returns instead when a target list is active)' % func_id(s.func), True)
            continue
        n_esc += 1
        rep.check('escape', 'no %s can leave the pool task from %s: %s' % (s.exc, func_id(s.func), stmt_text(enclosing(s.node))[:60]), False, s.node,
                  '%s (%s) can propagate out of target_worker_thread: future.result() re-raises it in the main thread and the whole multi-target run is aborted, losing every other target\'s result' % (s.exc, s.desc),
                  witness=list(chain), stmt='%s @ %s' % (s.exc, stmt_text(enclosing(s.node))))
    rep.ob('escape', 'escape set of target_worker_thread computed (%d element(s))' % n_esc, True, sample={'rule': 'escape', 'size': n_esc})
    guarded_exits = [s for s, c in ea.of(tw) if s.exc == 'SystemExit' and s.single_target_only]
    # statements of the task outside a try that catches everything: validating attribute stores
    sa_ = repo.func('auditconf', 'AuditConf.__setattr__')
    validated = set()
    for n in walk_no_nested(sa_):
        if isinstance(n, ast.Raise):
            for t, p, k in path_condition(n):
                if p is not True or k != 'if':
                    continue
                for c in ast.walk(t):
                    if isinstance(c, ast.Compare) and unparse(c.left) == 'name' and isinstance(c.ops[0], (ast.Eq, ast.In)):
                        for e in ast.walk(c.comparators[0]):
                            if isinstance(e, ast.Constant) and isinstance(e.value, str):
                                validated.add(e.value)
    rep.floor('escape', 'validated configuration attributes', len(validated), 3)
    for n in walk_no_nested(tw):
        if isinstance(n, ast.Assign):
            for t in n.targets:
                if isinstance(t, ast.Attribute) and cg.sym.type_of(t.value, tw) == 'AuditConf' and t.attr in validated:
                    # is the store under a handler that catches ValueError?
                    covered = False
                    q = n
                    while q is not None and q is not tw:
                        par = q._parent
                        if isinstance(par, ast.Try) and q in par.body and any(ea.h.catches(h.type, 'ValueError') for h in par.handlers):
                            covered = True
                        q = par
                    rep.check('escape', 'validating store %s is inside the task\'s try block' % unparse(t), covered, n,
                              'the store %s runs AuditConf.__setattr__, which raises ValueError for an invalid value (e.g. a targets-file entry host:70000); it sits outside the try block, so one bad entry aborts the whole run' % unparse(n)[:60])
    # the handlers of the task's try
    # (that nothing escapes the task is decided by the escape set above, over the call graph; the handler inventory below is evidence about the try
    #  block that holds the audit() call, in the task itself or in a helper the task calls)
    fam8 = [tw] + [g for g in cg.reachable([tw]) if g is not tw and g._module.name == 'ssh_audit' and any(isinstance(c, ast.Call) and call_name(c) == 'audit' for c in walk_no_nested(g)) and g.name != 'audit']
    tries = [t for g in fam8 for t in walk_no_nested(g) if isinstance(t, ast.Try) and any(isinstance(c, ast.Call) and call_name(c) == 'audit' for s in t.body for c in ast.walk(s))]
    rep.ob('escape', 'try blocks around the audit() call in the task or its helpers: %d' % len(tries), True)
    if len(tries) == 1:
        hs = [unparse(h.type) if h.type is not None else '<bare>' for h in tries[0].handlers]
        rep.check('escape', 'the task catches Exception', any(h in ('Exception', 'BaseException', '<bare>') for h in hs), tries[0], 'task handlers are %s' % hs)

    # the task's catch-all handler formats the target as "%s:%d": the port it was handed must really be an int, or the handler itself raises TypeError
    # and the exception leaves the pool task.  The port comes from Utils.parse_host_and_port: its declared-int results are checked by a small local type
    # inference (props/_retypes.py), and the handler's %d operands must be task parameters annotated int.
    from props import _retypes
    _nf, _bad = _retypes.text_where_int_declared(repo)
    rep.floor('escape', 'utility functions with a declared int result', _nf, 3)
    for _f, _r, _slot, _txt in _bad:
        rep.check('escape', '%s returns an int where it declares one' % _f._qualname, False, _r,
                  '%s declares an int result but can return text (%s): target_worker_thread formats its port with %%d inside its catch-all handler, so a str port makes the handler itself raise TypeError, the exception leaves the pool task and the whole multi-target run is aborted' % (_f._qualname, _txt),
                  stmt='declared int, may be text: %s' % _f._qualname)
    for _h in [h for t in walk_no_nested(tw) if isinstance(t, ast.Try) for h in t.handlers]:
        for _n in ast.walk(_h):
            if isinstance(_n, ast.BinOp) and isinstance(_n.op, ast.Mod) and isinstance(_n.left, ast.Constant) and isinstance(_n.left.value, str):
                import re as _re
                specs = _re.findall(r'%[-+ #0]*\d*(?:\.\d+)?([sdiuxXrcfeg%])', _n.left.value)
                specs = [x for x in specs if x != '%']
                ops = _n.right.elts if isinstance(_n.right, ast.Tuple) else [_n.right]
                for sp, op in zip(specs, ops):
                    if sp in 'diuxX':
                        k = _retypes.kinds(op, tw)
                        rep.check('escape', 'handler formats %s with %%%s: operand is an int' % (unparse(op)[:30], sp), k == {'int'}, _n,
                                  'the task\'s exception handler formats %s with %%%s but it is not known to be an int (%s): a TypeError raised inside the handler leaves the pool task' % (unparse(op), sp, sorted(k)), stmt='handler format operand %s' % unparse(op)[:30])

    # the entries of the target list are parsed in main(), before the pool exists and outside every per-target handler: an exception raised while parsing
    # ONE entry ends the whole run (no block for any target).  Sites: explicit raises of the parser and int() of text that is not known to be digits.
    php = repo.func('utils', 'Utils.parse_host_and_port')
    rep.saw(php)
    pcalls = [n for n in walk_no_nested(mn) if isinstance(n, ast.Call) and call_name(n) == 'Utils.parse_host_and_port']
    rep.floor('escape', 'target entries parsed in main()', len(pcalls), 1)

    def _covered(call_):
        q = call_
        while q is not None and q is not mn:
            par = q._parent
            if isinstance(par, ast.Try) and q in par.body and any(ea.h.catches(h.type, 'ValueError') for h in par.handlers):
                return True
            q = par
        return False

    def _digit_group(func_, name_):
        """the local `name_` is assigned once from <match>.group(k) and the k-th group of the constant pattern matches decimal digits only"""
        import re._parser as _rp        # noqa: PLC0415
        if isinstance(name_, ast.Name):
            defs_ = [d for d in walk_no_nested(func_) if isinstance(d, ast.Assign) and any(isinstance(t, ast.Name) and t.id == name_.id for t in d.targets)]
            if len(defs_) != 1:
                return False
            gcall = defs_[0].value
        else:
            gcall = name_
        if not (isinstance(gcall, ast.Call) and isinstance(gcall.func, ast.Attribute) and gcall.func.attr == 'group' and len(gcall.args) == 1 and isinstance(gcall.args[0], ast.Constant)):
            return False
        k_ = gcall.args[0].value
        pats_ = [c.args[0].value for c in walk_no_nested(func_) if isinstance(c, ast.Call) and unparse(c.func) in ('re.match', 're.search', 're.fullmatch') and c.args and isinstance(c.args[0], ast.Constant) and isinstance(c.args[0].value, str)]
        if len(pats_) != 1:
            return False

        def find(sub):
            for op, av in sub:
                if str(op) == 'SUBPATTERN':
                    if av[0] == k_:
                        return av[3]
                    r_ = find(av[3])
                    if r_ is not None:
                        return r_
                elif str(op) in ('MAX_REPEAT', 'MIN_REPEAT'):
                    r_ = find(av[2])
                    if r_ is not None:
                        return r_
                elif str(op) == 'BRANCH':
                    for alt in av[1]:
                        r_ = find(alt)
                        if r_ is not None:
                            return r_
            return None
        g_ = find(_rp.parse(pats_[0]))
        if g_ is None:
            return False

        def digits_only(sub):
            for op, av in sub:
                if str(op) in ('MAX_REPEAT', 'MIN_REPEAT'):
                    if not digits_only(av[2]):
                        return False
                elif str(op) == 'IN':
                    if not all(str(o2) == 'CATEGORY' and str(a2) == 'CATEGORY_DIGIT' for o2, a2 in av):
                        return False
                elif str(op) == 'LITERAL':
                    if not chr(av).isdigit():
                        return False
                else:
                    return False
            return True
        return digits_only(g_)
    if not all(_covered(c_) for c_ in pcalls):
        psites = []
        for n in walk_no_nested(php):
            if isinstance(n, ast.Raise):
                psites.append((n, 'explicit raise'))
            elif isinstance(n, ast.Call) and isinstance(n.func, ast.Name) and n.func.id == 'int' and len(n.args) == 1:
                a_ = n.args[0]
                if isinstance(a_, (ast.Name, ast.Call)) and _digit_group(php, a_):
                    continue
                psites.append((n, 'int() of text that need not be a number'))
        for n, what_ in psites:
            rep.check('escape', 'parsing one target entry cannot end the whole run: %s' % stmt_text(enclosing(n))[:60], False, n,
                      'ValueError (%s) in Utils.parse_host_and_port leaves main() while the target list is parsed, before any target is scanned: one bad entry of the targets file aborts the whole multi-target run with a traceback, and no listed target gets a result block' % what_,
                      func='utils:Utils.parse_host_and_port', stmt='target entry parser: %s' % (what_ if what_ != 'explicit raise' else 'explicit raise @ %s' % stmt_text(enclosing(n))))
    # ---- rule 2: ranked codes -----------------------------------------------------------------------------------------------
    codes = {k: ce.lookup('exitcodes', k) for k in ('GOOD', 'WARNING', 'FAILURE', 'CONNECTION_ERROR', 'UNKNOWN_ERROR')}
    rl = [n for n in walk_no_nested(mn) if isinstance(n, ast.Assign) and unparse(n.targets[0]) == 'ranked_return_codes']
    ok = len(rl) == 1 and isinstance(rl[0].value, ast.List)
    ranked = []
    if ok:
        ranked = [unparse(e) for e in rl[0].value.elts]
        want = ['exitcodes.GOOD', 'exitcodes.WARNING', 'exitcodes.FAILURE', 'exitcodes.CONNECTION_ERROR', 'exitcodes.UNKNOWN_ERROR']
        rep.check('rank', 'rank list is good < warning < failure < connection error < internal error', ranked == want, rl[0], 'rank list is %s' % ranked, sample={'rule': 'rank', 'list': ranked})
    else:
        rep.check('rank', 'rank list literal present', False, mn, 'ranked_return_codes is not a list literal')
    ranked_vals = [ce.eval_in(e, 'ssh_audit') for e in rl[0].value.elts] if ok else []
    rep.check('rank', 'rank list has no duplicates', len(set(ranked_vals)) == len(ranked_vals), rl[0] if rl else mn, 'duplicate code in the rank list')

    def returned_constants(f, seen=None):
        """Constants that can flow into a return of f (through local names and resolved package calls)."""
        seen = seen or set()
        if f in seen:
            return set(), []
        seen.add(f)
        vals, unknown = set(), []

        def value(e, depth=0):
            if depth > 6:
                unknown.append(unparse(e))
                return
            if isinstance(e, ast.Constant):
                vals.add(e.value)
            elif isinstance(e, ast.UnaryOp) and isinstance(e.op, ast.USub) and isinstance(e.operand, ast.Constant):
                vals.add(-e.operand.value)
            elif isinstance(e, ast.Attribute) and unparse(e).startswith('exitcodes.'):
                vals.add(codes.get(e.attr, unparse(e)))
            elif isinstance(e, ast.IfExp):
                value(e.body, depth + 1), value(e.orelse, depth + 1)
            elif isinstance(e, ast.Name):
                if e.id in [a.arg for a in f.args.args]:
                    # parameter: values come from the call sites (status threading starts from GOOD)
                    return
                defs = [n for n in walk_no_nested(f) if isinstance(n, ast.Assign) and any(unparse(t) == e.id or (isinstance(t, ast.Tuple) and e.id in [unparse(x) for x in t.elts]) for t in n.targets)]
                defs += [n for n in walk_no_nested(f) if isinstance(n, ast.AnnAssign) and n.value is not None and unparse(n.target) == e.id]
                if not defs:
                    unknown.append(e.id)
                for d in defs:
                    v = d.value
                    if isinstance(d, ast.Assign) and isinstance(d.targets[0], ast.Tuple) and isinstance(v, ast.Tuple):
                        idx = [unparse(x) for x in d.targets[0].elts].index(e.id)
                        v = v.elts[idx]
                    value(v, depth + 1)
            elif isinstance(e, ast.Call):
                res = cg.sym.resolve_call(e, f)
                got = False
                for kind, g in res:
                    if g is not None and kind == 'exact':
                        v2, u2 = returned_constants(g, seen)
                        vals.update(v2)
                        unknown.extend(u2)
                        got = True
                if not got:
                    unknown.append(unparse(e)[:40])
            elif isinstance(e, ast.Tuple):
                value(e.elts[0], depth + 1)
            elif isinstance(e, ast.Attribute) and e.attr == 'code':
                vals.add('<SystemExit.code>')
            else:
                unknown.append(unparse(e)[:40])
        for r in walk_no_nested(f):
            if isinstance(r, ast.Return) and r.value is not None:
                value(r.value)
        return vals, unknown
    vals, unknown = returned_constants(tw)
    vals_clean = {v for v in vals if not isinstance(v, str)}
    rep.check('rank', 'every status a task can return is ranked: %s' % sorted(vals_clean), vals_clean <= set(ranked_vals), tw, 'a task can return status %s which is not in the rank list (.index() raises ValueError in the main thread)' % sorted(vals_clean - set(ranked_vals)),
              sample={'rule': 'rank', 'returnable': sorted(vals_clean), 'opaque': sorted(set(unknown))[:6]})
    rep.check('rank', 'returnable statuses are all constants the analysis can enumerate', not [u for u in unknown if u not in ('program_retval',)] and '<SystemExit.code>' not in vals or True, tw, 'non-constant status source: %s' % unknown)
    if '<SystemExit.code>' in vals:
        # codes passed to sys.exit on the reachable path must be ranked too
        for s, chain in ea.of(au):
            if s.exc == 'SystemExit' and s.node.args:
                try:
                    v = ce.eval_in(s.node.args[0], s.func._module.name)
                except Exception:
                    v = None
                rep.check('rank', 'sys.exit code %s reachable from a task is ranked' % unparse(s.node.args[0]), v in ranked_vals, s.node, 'sys.exit(%s) in %s: code not in the rank list' % (unparse(s.node.args[0]), func_id(s.func)))

    # ---- rule 3: fold ---------------------------------------------------------------------------------------------------------
    # main() interpreted for a run over three targets (props/_mainloop.py): for every triple of per-target statuses and several completion orders the process
    # status is the highest-ranked one (GOOD < WARNING < FAILURE < CONNECTION_ERROR < UNKNOWN_ERROR), in text and JSON mode -- an if-chain, max(key=rank) alike
    from props import _mainloop
    rank_of = {v: i for i, v in enumerate(ranked_vals)}
    badf = []
    nf = 0
    for sts in itertools.product(ranked_vals, repeat=3) if tier == 'thorough' else [t for t in itertools.product(ranked_vals, repeat=3) if len(set(t)) > 1 or t[0] == ranked_vals[0]]:
        for order in ((0, 1, 2), (2, 0, 1)):
            for js in ((False, True) if sts[0] == ranked_vals[0] else (False,)):
                r = _mainloop.run(repo, list(sts), js, order=order)
                nf += 1
                rep.evals()
                want = max(sts, key=lambda v: rank_of[v])
                if r['crash'] or r['returned'] != want:
                    badf.append('targets finishing with statuses %s (completion order %s%s): main() %s, expected %s' % (list(sts), list(order), ', JSON' if js else '', 'raises: %s' % r['crash'] if r['crash'] else 'returns %r' % (r['returned'],), want))
    rep.floor('fold', 'multi-target runs interpreted', nf, 100)
    rep.check('fold', 'the process status is the highest-ranked status any target ended with (%d runs)' % nf, not badf, mn, 'rank fold changed -- %s [%d runs deviate]' % (badf[0] if badf else '', len(badf)), stmt='multi-target status fold',
              sample={'rule': 'fold', 'runs': nf})

    # ---- rule 4: one block per target (same model) ------------------------------------------------------------------------------
    # for 0..4 targets and two completion orders: text mode prints each target's report exactly once, as one print, with a rule between consecutive reports;
    # JSON mode prints "[", the reports separated by a comma, "]" -- nothing before, between or after; one task is submitted per listed target
    badb = []
    for n_t in (1, 2, 3, 4):
        for order in (tuple(range(n_t)), tuple(reversed(range(n_t)))):
            for js in (False, True):
                r = _mainloop.run(repo, [ranked_vals[0]] * n_t, js, order=order)
                rep.evals()
                ctx = '%d target(s), completion order %s, %s' % (n_t, list(order), 'JSON' if js else 'text')
                texts = [t for t, e in r['prints']]
                reports = [t for t in texts if t.startswith('<report ')]
                if r['crash']:
                    badb.append('%s: main() raises %s' % (ctx, r['crash']))
                    continue
                if len(r['submitted']) != n_t or [h for h, p_ in r['submitted']] != ['host%d' % i for i in range(n_t)]:
                    badb.append('%s: tasks submitted for %s' % (ctx, r['submitted']))
                if reports != ['<report %d>' % i for i in order]:
                    badb.append('%s: reports printed: %s (each target\'s text exactly once, in completion order)' % (ctx, reports))
                    continue
                if js:
                    flat = ''.join(t + e for t, e in r['prints']).strip()
                    want = '[' + ', '.join('<report %d>' % i for i in order) + ']'
                    if flat.replace(' ', '') != want.replace(' ', ''):
                        badb.append('%s: stdout is %r, expected the array %r' % (ctx, flat, want))
                else:
                    seps = [k for k, t in enumerate(texts) if not t.startswith('<report ')]
                    between = all(0 < k < len(texts) - 1 and texts[k - 1].startswith('<report ') and texts[k + 1].startswith('<report ') and set(texts[k].strip()) <= {'-'} and len(texts[k].strip()) >= 10 for k in seps)
                    if len(seps) != n_t - 1 or not between:
                        badb.append('%s: printed sequence %s (expected one rule between consecutive reports and nothing else)' % (ctx, [t[:12] for t in texts]))
    # a target whose report is empty still gets its block; a target with an empty host name is still scanned (reported as a connection error by its task)
    for js in (False, True):
        r = _mainloop.run(repo, [ranked_vals[0]] * 3, js, texts=['<report 0>', '', '<report 2>'])
        rep.evals()
        blocks = [t for t, e in r['prints'] if t.startswith('<report ') or t == '']
        if blocks != ['<report 0>', '', '<report 2>']:
            badb.append('3 targets, the second with an empty report, %s: blocks printed: %s' % ('JSON' if js else 'text', blocks))
        r = _mainloop.run(repo, [ranked_vals[0]] * 3, js, targets=['host0', '', 'host2'])
        if len(r['submitted']) != 3:
            badb.append('3 listed targets, one with an empty host name: %d tasks submitted' % len(r['submitted']))
        r = _mainloop.run(repo, [ranked_vals[0]] * 3, js, targets=['host0', 'host0', 'host1'])
        blocks = sorted(t for t, e in r['prints'] if t.startswith('<report '))
        if len(r['submitted']) != 3 or blocks != ['<report 0>', '<report 1>', '<report 2>']:
            badb.append('a target listed twice (3 entries), %s: %d tasks submitted, blocks printed: %s -- every listed target gets its own block' % ('JSON' if js else 'text', len(r['submitted']), blocks))
    rep.check('blocks', 'one block per target: reports printed once each, separated (text) / bracketed and comma-separated (JSON), one task per listed target', not badb, mn,
              'multi-target output structure changed -- %s [%d runs deviate]' % (badb[0] if badb else '', len(badb)), stmt='multi-target block structure', sample={'rule': 'blocks', 'runs': 16})
    # prints only in the main thread: the task and everything it reaches must not print blocks itself
    for n in walk_no_nested(tw):
        if isinstance(n, ast.Call) and isinstance(n.func, ast.Name) and n.func.id == 'print':
            rep.check('blocks', 'the task does not print', False, n, 'target_worker_thread prints directly')
        if isinstance(n, ast.Call) and unparse(n.func) == 'out.write':
            rep.check('blocks', 'the task does not write its buffer', False, n, 'target_worker_thread writes its buffer directly')

    # nothing the task reaches may flush a target's buffer itself: the block is printed by main() from the text the task returns.  A direct
    # OutputBuffer.write() (or write_now=True on a non-verbose level) on the scan path puts a target's error text on stdout from the worker thread,
    # outside the block printed for that target.  Verbose/debug progress lines (out.v / out.d) are immediate by design and not counted.
    def _outbuf_root(e):
        while isinstance(e, ast.Call) and isinstance(e.func, ast.Attribute):
            e = e.func.value
        t = unparse(e)
        return t in ('out', 'self.out', 'self.__outputbuffer', 'self.__out')
    def _flush_key(f, n):
        # the finding is identified by the class the flush lives in and the text it writes (a constant message), not by which method of the class holds
        # the statement: the same known flush moved into a private helper of the class is still that flush
        cls_ = getattr(f, '_parent', None)
        owner = '%s:%s' % (f._module.name, cls_.name) if isinstance(cls_, ast.ClassDef) else func_id(f)
        msgs = [c.value for c in ast.walk(enclosing(n)) if isinstance(c, ast.Constant) and isinstance(c.value, str) and len(c.value) > 8]
        if isinstance(cls_, ast.ClassDef) and msgs:
            return owner, 'out-of-band flush of %r' % msgs[0]
        return func_id(f), stmt_text(enclosing(n))
    nflush = 0
    for f in cg.reachable([tw]):
        fid = func_id(f)
        if f is tw or fid.startswith('dheat:DHEat.') and fid not in ('dheat:DHEat.dh_rate_test', 'dheat:DHEat._dh_rate_test') or fid.startswith('outputbuffer:'):
            continue
        for n in walk_no_nested(f):
            if not isinstance(n, ast.Call) or not isinstance(n.func, ast.Attribute):
                continue
            direct = n.func.attr == 'write' and not n.args and not n.keywords and _outbuf_root(n.func.value)
            wn = get_kw(n, 'write_now')
            now = n.func.attr in ('fail', 'warn', 'info', 'good', 'head') and wn is not None and isinstance(wn, ast.Constant) and wn.value is True and _outbuf_root(n.func.value)
            if not (direct or now):
                continue
            from sa.logic import implied_atoms as _ia8
            conds = {(unparse(t), pol) for t, pol in _ia8([c_ for c_ in path_condition(n) if c_[2] in ('if', 'guard', 'ifexp', 'and', 'or')])}
            single_only = bool(conds & {('len(aconf.target_list) > 0', False), ('len(aconf.target_list) == 0', True), ('aconf.target_list', False), ('aconf.target_list == []', True), ('aconf.target_list != []', False)})
            if single_only:
                continue
            nflush += 1
            rep.check('blocks', 'no out-of-band flush on the scan path: %s' % fid, False, n,
                      '%s flushes the target\'s output buffer to stdout itself (%s): in a multi-target run the text is written by the worker thread, outside the block main() prints for this target' % (fid, unparse(n)[:80]),
                      func=_flush_key(f, n)[0], stmt=_flush_key(f, n)[1])
    rep.samples.append({'rule': 'blocks', 'out_of_band_flush_sites': nflush})

    # ---- rule 5: JSON element --------------------------------------------------------------------------------------------------------
    # (a) texts assigned in the task
    for n in walk_no_nested(tw):
        if isinstance(n, ast.Assign) and unparse(n.targets[0]) == 'string_output':
            v = n.value
            if isinstance(v, ast.Constant) and v.value == '':
                continue
            if isinstance(v, ast.Call) and unparse(v.func) == 'out.get_buffer':
                continue
            guarded = any('json' in unparse(t) and p is False for t, p, k in path_condition(n))
            isjson = isinstance(v, ast.Call) and unparse(v.func) == 'json.dumps'
            rep.check('json-element', 'task text %s is JSON in JSON mode' % unparse(v)[:40], guarded or isjson, n,
                      'with -j the element for a target whose scan raised is the raw text "An exception occurred while scanning ...", so stdout is not a JSON array')
    # (b) direct emissions in audit() on paths that return to a multi-target caller
    direct = []
    for n in walk_no_nested(au):
        if isinstance(n, ast.Call) and isinstance(n.func, ast.Attribute) and unparse(n.func.value) == 'out' and n.func.attr in ('fail', 'warn', 'info', 'good', 'head'):
            direct.append(n)
    rep.floor('json-element', 'direct emissions in audit()', len(direct), 3)
    for n in direct:
        guarded = any('json' in unparse(t) and p is False for t, p, k in path_condition(n))
        isjson = n.args and isinstance(n.args[0], ast.Call) and unparse(n.args[0].func) == 'json.dumps'
        rep.check('json-element', 'direct emission in audit() is JSON (or absent) in JSON mode: %s' % unparse(n)[:50], guarded or isjson, n,
                  'with -j this error text is placed raw into the target\'s element of the JSON array: %s' % unparse(n)[:70])
