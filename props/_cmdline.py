"""Model of the target selection in ssh_audit.process_commandline: the statements of the function that aconf.host / aconf.port depend on (data and control; a
statement-level backward slice over the function body) are interpreted (sa/listinterp.py) for given option values; everything else -- the option parser set-up,
the other options -- is not consulted.  Inputs: argument.host, argument.oport (-p), aconf.client_audit, aconf.target_file."""
import ast

from sa.core import AnalysisError, unparse, call_name
from sa.abseval import Unknown, Opaque
from sa.listinterp import Interp
from sa.slicer import uses

INPUT_PREFIXES = ('argument.', 'aconf.')


def _stored(st):
    out = set()
    for n in ast.walk(st):
        if isinstance(n, (ast.Name, ast.Attribute)) and isinstance(getattr(n, 'ctx', None), ast.Store):
            out.add(unparse(n))
    return out


def relevant_statements(func, goals=('aconf.host', 'aconf.port'), inputs=('aconf.client_audit', 'aconf.target_file')):
    """statements (top level, and inside try / if bodies) that the goals depend on; stores into the model's inputs are not followed"""
    rel = set(goals)

    def simple(st):
        return isinstance(st, (ast.Assign, ast.AnnAssign, ast.AugAssign, ast.Expr, ast.Return, ast.Raise, ast.Pass))
    changed = True
    while changed:
        changed = False
        for st in ast.walk(func):
            if isinstance(st, ast.stmt) and simple(st) and (_stored(st) & rel) and not (_stored(st) & set(inputs)):
                for u in uses(st):
                    if u not in rel and not (u.startswith(INPUT_PREFIXES) and u not in _stored_anywhere(func)) and u not in inputs:
                        rel.add(u)
                        changed = True
                # control dependence: tests of the enclosing ifs
                q = getattr(st, '_parent', None)
                while q is not None and q is not func:
                    if isinstance(q, (ast.If, ast.While)):
                        for u in uses(q.test):
                            if u not in rel and u not in inputs and not (u.startswith(INPUT_PREFIXES) and u not in _stored_anywhere(func)):
                                rel.add(u)
                                changed = True
                    q = getattr(q, '_parent', None)

    def prune(stmts):
        out = []
        for st in stmts:
            if simple(st):
                if (_stored(st) & rel) and not (_stored(st) & set(inputs)):
                    out.append(st)
                elif isinstance(st, ast.Expr) and isinstance(st.value, ast.Call) and unparse(st.value.func) == 'sys.exit' and False:
                    out.append(st)
                continue
            if isinstance(st, ast.Try):
                out.extend(prune(st.body))
                out.extend(prune(st.orelse))
                continue
            if isinstance(st, ast.If):
                b, o = prune_keep_exits(st.body), prune_keep_exits(st.orelse)
                if any(not _is_exit(x) for x in b + o):
                    new = ast.If(test=st.test, body=b or [ast.Pass()], orelse=o)
                    out.append(ast.copy_location(new, st))
                continue
            if isinstance(st, (ast.For, ast.While, ast.With)) and (_stored(st) & rel):
                out.append(st)
        return out

    def _is_exit(st):
        return isinstance(st, ast.Expr) and isinstance(st.value, ast.Call) and unparse(st.value.func) == 'sys.exit'

    def prune_keep_exits(stmts):
        # inside a kept branch an exit of the program matters (the goals are then never stored)
        kept = prune(stmts)
        res = []
        for st in stmts:
            if st in kept or any(getattr(k, 'lineno', -1) == getattr(st, 'lineno', -2) and type(k) is type(st) for k in kept):
                res.append([k for k in kept if getattr(k, 'lineno', -1) == getattr(st, 'lineno', -2)][0] if st not in kept else st)
            elif _is_exit(st):
                res.append(st)
            elif isinstance(st, ast.If) and any(_is_exit(x) for x in ast.walk(st) if isinstance(x, ast.stmt)) and (set(uses(st.test)) & rel):
                res.append(st)
        return res
    return prune(func.body)


def _stored_anywhere(func):
    cache = getattr(func, '_stored_cache', None)
    if cache is None:
        cache = set()
        for n in ast.walk(func):
            if isinstance(n, (ast.Name, ast.Attribute)) and isinstance(getattr(n, 'ctx', None), ast.Store):
                cache.add(unparse(n))
        func._stored_cache = cache
    return cache


def hostport(repo, host_arg, oport, client_audit=False, target_file=None, parse=None):
    """-> ('exit', None) when the command line is rejected, else (aconf.host, aconf.port)"""
    pc = repo.func('ssh_audit', 'process_commandline')
    stmts = relevant_statements(pc)
    if not stmts:
        raise AnalysisError('process_commandline: no statement stores aconf.host / aconf.port')
    env = {'argument': Opaque(), 'argument.host': host_arg, 'argument.oport': oport, 'aconf': Opaque(), 'aconf.client_audit': client_audit, 'aconf.target_file': target_file,
           'aconf.list_policies': False, 'out': Opaque(), 'args': []}
    exited = []

    def hook(call, e, interp):
        t = call_name(call) or unparse(call.func)
        if t == 'Utils.parse_host_and_port':
            v = interp.value(call.args[0], e)
            dp = 22         # the function's declared default
            if len(call.args) > 1:
                dp = interp.value(call.args[1], e)
            for k in call.keywords:
                if k.arg == 'default_port':
                    dp = interp.value(k.value, e)
            return (True, parse(v, dp) if parse is not None else (v, dp))
        if t == 'Utils.parse_int':
            v = interp.value(call.args[0], e)
            try:
                return (True, int(v))
            except (TypeError, ValueError):
                return (True, 0)
        if t == 'sys.exit':
            e['<outcome>'] = 'raise'
            e['<exit>'] = True
            raise _Exit()
        return None

    class _Exit(Unknown):
        pass
    it = Interp(call_hook=hook, budget=20000)
    try:
        finals = it.run(stmts, env)
    except _Exit:
        return ('exit', None)
    except Unknown as ex:
        raise AnalysisError('target selection of process_commandline cannot be interpreted: %s' % ex)
    finals = [f for f in finals if not f.get('<crash>')]
    if len(finals) != 1 or finals[0].get('<forks>'):
        raise AnalysisError('target selection of process_commandline does not evaluate on a single path (forks %s)' % [f.get('<forks>') for f in finals][:2])
    fe = finals[0]
    return (fe.get('aconf.host'), fe.get('aconf.port'))
