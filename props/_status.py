"""Shared by C02 and C15: what the exit status of a report depends on, by data and by control (which return statement
executes), through the chain output_algorithm -> output_algorithms -> output.  Intra-procedural backward slices joined at the
call sites (a callee's status parameters are replaced by the caller's argument expressions)."""
from sa.core import call_name
import ast
from sa.slicer import Slice, uses


def bind_args(call, func):
    """parameter -> argument expression; a **mapping argument may feed any parameter not bound otherwise (its uses are attributed to all of them)"""
    params = [x.arg for x in func.args.posonlyargs + func.args.args]
    out = {}
    for i, a in enumerate(call.args):
        if isinstance(a, ast.Starred):
            for p in params[i:]:
                out.setdefault(p, a.value)
            break
        if i < len(params):
            out[params[i]] = a
    for k in call.keywords:
        if k.arg is None:
            for p in params:
                out.setdefault(p, k.value)
        else:
            out[k.arg] = k.value
    return out


def status_slices(repo, status_param='program_retval', oa_by_model=False):
    """oa_by_model: the per-name renderer's status is decided by the interpretation model (props/_renderer.py: the returned status is the same for
    every presentation flag, padding width and size annotation); its status then depends on the table, the category, the name and the incoming
    status only, and the slice of that function is not consulted."""
    oa = repo.func('ssh_audit', 'output_algorithm')
    oas = repo.func('ssh_audit', 'output_algorithms')
    outf = repo.func('ssh_audit', 'output')
    if oa_by_model:
        R1 = set()
        params_oa = {a.arg for a in oa.args.args} & {'alg_db', 'alg_type', 'alg_name', status_param}
    else:
        s1 = Slice(oa)
        R1 = s1.closure({status_param}) | s1.closure({'<return>'})
        params_oa = {a.arg for a in oa.args.args} & R1

    def cu_oas(call):
        if call_name(call) == 'output_algorithm':
            b = bind_args(call, oa)
            u = set()
            for p, a in b.items():
                if p in params_oa:
                    u |= uses(a)
            return u
        return None
    R2 = Slice(oas, call_uses=cu_oas).closure({'<return>'})
    R2 -= {'out'}           # `with out:` only toggles the section flag
    params_oas = {a.arg for a in oas.args.args} & R2

    def cu_out(call):
        if call_name(call) == 'output_algorithms':
            b = bind_args(call, oas)
            u = set()
            for p, a in b.items():
                if p in params_oas:
                    u |= uses(a)
            return u
        return None
    R3 = Slice(outf, call_uses=cu_out).closure({'<return>'})
    R3 -= {'out'}
    return ([] if oa_by_model else [('output_algorithm', oa, R1)]) + [('output_algorithms', oas, R2), ('output', outf, R3)]
